"""C19 - gas phases obey their equation of state and fugacity-based equilibrium.

Reading of the documentation (what decides the equation of state "in use", rule 3/4 of FRAMEWORK.md)
--------------------------------------------------------------------------------------------------
The PHREEQC-3 manual PDF in /repo/phreeqc3-doc is empty in this tree; the documentation that is present says:
 * phreeqc.dat header: the database holds "critical temperatures and pressures of gases in Peng-Robinson's EOS";
   comment block at its end: "Gas-pressures and fugacity coefficients are calculated with Peng-Robinson's EOS.  These
   binary interaction coefficients from Soreide and Whitson ... are hard-coded: kij H2O-CH4 0.49, H2O-CO2 0.19,
   H2O-H2S 0.19, H2O-N2 0.49, but are overwritten by the data block GAS_BINARY_PARAMETERS of this file".
 * RELEASE.TXT (11 Nov 2024): GAS_BINARY_PARAMETERS defines k_ij of pairs of gas components; lists the built-in
   water-gas values (H2O with CO2/H2S/H2Sg 0.19, CH4/Mtg/Methane/N2/Ntg/Ethane 0.49, Propane 0.55).
 * RELEASE.TXT (svn 7896): "For ideal gases, P = F.  For Peng-Robinson gases F = P * phi.  In EQUILIBRIUM_PHASES the
   target saturation index for a gas is log10(P) ... Basic functions SI and SR are based on the fugacity.  P and phi
   can be obtained with the Basic functions PR_P and PR_PHI."
 * RELEASE.TXT (2024): "Limits for fugacity coefficients were set to be 0.01 < phi < 85 in Peng-Robinson calculations."
 * error text of the engine (documented behaviour, an *error*, hence outside the domain): "Cannot calculate a mixture
   of ideal and Peng_Robinson gases, please define Tc and Pc for the active gases in PHASES".
=> EOS in use: Peng-Robinson when -T_c and -P_c are defined (in the database or input text) for the components of the
   gas phase; ideal gas when they are defined for none; a mixture of both kinds is rejected by the engine (excluded by
   construction here).  There is no documented pressure threshold.  k_ij: database / input GAS_BINARY_PARAMETERS,
   else the documented water-gas values, else 0.  Everything is re-derived from the database *text* by vp/eos.py.

Observables: USER_PUNCH full doubles GAS(i), GAS_P, GAS_VM, PR_P(i), PR_PHI(i), SI(i), TK, SYS(element), EQUI(i) and the
SELECTED_OUTPUT -gases columns (pressure, total mol, volume).  For ideal phases PR_P is not used (it is a
Peng-Robinson read-out); partial pressures are x_i * P there.
"""
import math, os
from hypothesis import strategies as st
from .. import lib, chemgen as cg, eos
from ..core import Violation, Discard

ID = "C19"
LEVEL = "exploration"
RULE = ("Hypothesis-generated batch reactions of a generated solution (phreeqc.dat / pitzer.dat / wateq4f.dat, 0-200 C) with "
        "(a) a GAS_PHASE of 1-5 database gases (redox-coupled and uncoupled, with critical constants = Peng-Robinson, without = "
        "ideal; optional input-defined gases with generated or absent critical constants; optional user GAS_BINARY_PARAMETERS), "
        "fixed pressure 0.01-1000 atm or fixed volume 0.01-20 L, initial partial pressures 0 / 1e-3-500 atm or -equilibrate, "
        "optional minerals / REACTION steps / REACTION_TEMPERATURE, or (b) 1-3 gases as EQUILIBRIUM_PHASES with target "
        "log10 P in -3..3.  Oracle (vp/eos.py, independent Peng-Robinson from database text): partial pressures = x_i P and sum "
        "to P; PV=nRT or PR cubic in pressure-explicit form outside the 3-real-root region; phi_i vs PR mixture expression "
        "inside the 0.01..85 clamp; 10^SI_i = phi_i p_i; fixed-pressure existence relation; initial moles from the EOS via "
        "element totals; same for EQUILIBRIUM_PHASES gases.  Non-trivial = a gas exists and (PR with |ln phi|>1e-3 for some "
        "component, or >= 2 gases with moles > 0); distinct by SHA-256 of the case")
ASSUMPTIONS = ["Peng-Robinson (1976) equations and van der Waals one-fluid mixing as quoted in the database/PHREEQC documentation",
               "R = 0.0820597 L atm/(mol K) is the documented model constant (DESIGN section 4 rule 6)",
               "k_ij = GAS_BINARY_PARAMETERS text, else the water-gas values documented in RELEASE.TXT / phreeqc.dat, else 0",
               "EOS in use = Peng-Robinson iff -T_c and -P_c are defined for the components (mixed definitions are an engine error, excluded)",
               "states whose cubic has three real roots at the reported composition are outside the property (skipped and counted)",
               "USER_PUNCH read-outs GAS, GAS_P, GAS_VM, PR_P, PR_PHI, SI, TK, SYS, EQUI report the converged state"]
TECHNIQUE = "property-based testing (Hypothesis) against an independent reference model (Peng-Robinson / ideal-gas EOS re-evaluated from database text)"
LEVEL_TEXT = ("Exploration: thousands of generated gas-solution equilibria per run; every reported gas state is re-evaluated with an "
              "independent equation-of-state implementation (cubic, fugacity coefficients, fugacity = 10^SI, partial-pressure "
              "shares, fixed-pressure existence, EOS-based initial moles).  3-root (two-phase) states are skipped and counted.")
FLOORS = {"quick": 300, "thorough": 3000}
SHARDS = {"quick": 8, "thorough": 16}
BUDGET = {"quick": 330, "thorough": 2200, "replay": 1}

TOL_PSUM = 1e-10      # partial pressures: shares of the total and sum (property)
TOL_EOS = 1e-4        # equation of state, relative (property)
TOL_PHI = 1e-6        # fugacity coefficient (property)
TOL_FUG = 1e-6        # 10^SI = phi p, relative (solver convergence 1e-12 leaves ample margin; probe: 1e-8)
LNPHI_LO, LNPHI_HI = math.log(0.01), math.log(85.0)      # documented clamp 0.01 .. 85

# gas -> (elements it carries besides H and O)
GAS_ELEMENTS = {
    "CO2(g)": {"C": 1}, "CH4(g)": {"C": 1}, "N2(g)": {"N": 2}, "NH3(g)": {"N": 1}, "H2S(g)": {"S": 1},
    "O2(g)": {}, "H2(g)": {}, "H2O(g)": {},
    "Mtg(g)": {"Mtg": 1}, "Ntg(g)": {"Ntg": 1}, "Oxg(g)": {"Oxg": 1}, "Hdg(g)": {"Hdg": 1}, "H2Sg(g)": {"Sg": 1},
}
DBS = {
    "phreeqc.dat": ["CO2(g)", "CH4(g)", "N2(g)", "O2(g)", "H2(g)", "H2S(g)", "NH3(g)", "H2O(g)",
                    "Mtg(g)", "Ntg(g)", "Oxg(g)", "Hdg(g)", "H2Sg(g)"],
    "pitzer.dat": ["CO2(g)", "H2O(g)", "Mtg(g)", "Ntg(g)", "Oxg(g)", "Hdg(g)", "H2Sg(g)"],
    "wateq4f.dat": ["CO2(g)", "CH4(g)", "N2(g)", "O2(g)", "H2(g)", "H2S(g)", "NH3(g)", "H2O(g)"],
}
SOL_ELEMENTS = {"Na": 0.5, "K": 0.1, "Ca": 0.02, "Mg": 0.02, "Cl": 0.5, "S(6)": 0.02, "C(4)": 0.02}
# templates of input-defined gases (phreeqc.dat only): aqueous species, element, log K text, (Tc, Pc, omega) to perturb
CUSTOM = [
    ("CO2 = CO2", {"C": 1}, "-log_k -1.468\n -analytic 10.5624 -2.3547e-2 -3972.8 0 5.8746e5 1.9194e-5", (304.2, 72.86, 0.225)),
    ("Mtg = Mtg", {"Mtg": 1}, "-log_k -2.8", (190.6, 45.4, 0.008)),
    ("Ntg = Ntg", {"Ntg": 1}, "-log_k -3.1864", (126.2, 33.5, 0.039)),
    ("Oxg = Oxg", {"Oxg": 1}, "-log_k -2.8983", (154.6, 49.8, 0.021)),
    ("Hdg = Hdg", {"Hdg": 1}, "-log_k -3.105", (33.2, 12.8, -0.225)),
]
CUSTOM_NAMES = ["Gqa(g)", "Gqb(g)", "Gqc(g)"]
_DBTEXT = {}


def prepare(tier):
    lib.build("rel", ["libiphreeqc_rel.so"])


def dbtext(db):
    if db not in _DBTEXT:
        _DBTEXT[db] = open(os.path.join(lib.DBDIR, db), encoding="latin-1").read()
    return _DBTEXT[db]


def psat_water(tc):
    """rough water vapour pressure (atm), generator heuristic only (Antoine)"""
    if tc < 100:
        return 10 ** (8.07131 - 1730.63 / (233.426 + tc)) / 760.0
    return 10 ** (8.14019 - 1810.94 / (244.485 + tc)) / 760.0


# ------------------------------------------------------------------------------- generator
@st.composite
def case_strategy(draw):
    kind = draw(st.sampled_from(["gp", "gp", "gp", "gp", "equi"]))
    db = draw(st.sampled_from(["phreeqc.dat", "phreeqc.dat", "phreeqc.dat", "pitzer.dat", "wateq4f.dat"]))
    tc = draw(st.one_of(st.just(25.0), cg.uni(0.0, 200.0, 4)))
    sol = draw(cg.simple_solution(1, elements=SOL_ELEMENTS, max_el=4, temp=False, charge=False))
    sol["temp"] = tc
    if draw(st.integers(0, 3)) == 0:
        sol["water"] = draw(cg.logu(0.2, 3.0, 3))
    pool = list(DBS[db])
    custom = []
    custom_mode = None
    if db == "phreeqc.dat" and kind == "gp" and draw(st.integers(0, 4)) == 0:
        custom_mode = draw(st.sampled_from(["ideal", "pr"]))
        tpl = draw(st.lists(st.sampled_from(range(len(CUSTOM))), min_size=1, max_size=3, unique=True))
        for k, ti in enumerate(tpl):
            rx, els, lk, (tc0, pc0, om0) = CUSTOM[ti]
            g = {"name": CUSTOM_NAMES[k], "tpl": ti}
            if custom_mode == "pr":
                g["tc"] = float("%.5g" % (tc0 * draw(cg.uni(0.85, 1.2, 4))))
                g["pc"] = float("%.5g" % (pc0 * draw(cg.uni(0.8, 1.25, 4))))
                g["omega"] = float("%.4g" % (om0 + draw(cg.uni(-0.05, 0.1, 3))))
                g["dash"] = draw(st.booleans())
            custom.append(g)
    parts = {"kind": kind, "db": db, "sol": sol, "custom": custom}
    if kind == "equi":
        pool = [g for g in pool if g != "H2O(g)"]
        names = draw(st.lists(st.sampled_from(pool), min_size=1, max_size=3, unique=True))
        parts["equi"] = [[n, draw(cg.uni(-3.0, 3.0, 4)), draw(cg.logu(1e-4, 10.0, 3))] for n in names]
        parts["minerals"] = draw(st.sampled_from([[], [], ["Calcite"]]))
        return finish(parts)
    # ---- gas phase
    if custom_mode == "ideal":
        names = [g["name"] for g in custom]
    else:
        taken = {CUSTOM[g["tpl"]][0] for g in custom}
        same = {"CO2 = CO2": "CO2(g)", "Mtg = Mtg": "Mtg(g)", "Ntg = Ntg": "Ntg(g)", "Oxg = Oxg": "Oxg(g)", "Hdg = Hdg": "Hdg(g)"}
        pool = [g for g in pool if g not in {same[t] for t in taken}]
        family = draw(st.sampled_from(["any", "inert", "inert", "redox"]))
        if family == "inert":
            pool2 = [g for g in pool if g in ("CO2(g)", "H2O(g)", "Mtg(g)", "Ntg(g)", "Oxg(g)", "Hdg(g)", "H2Sg(g)")]
        elif family == "redox":
            pool2 = [g for g in pool if g in ("CO2(g)", "CH4(g)", "N2(g)", "O2(g)", "H2(g)", "H2S(g)", "NH3(g)", "H2O(g)")]
        else:
            pool2 = pool
        pool2 = pool2 or pool
        names = draw(st.lists(st.sampled_from(pool2), min_size=0 if custom else 1, max_size=5 - len(custom), unique=True))
        names = [g["name"] for g in custom] + names
    typ = draw(st.sampled_from(["P", "V"]))
    gp = {"type": typ, "volume": draw(cg.logu(0.01, 20.0, 3))}
    gp["temp"] = tc if draw(st.integers(0, 3)) else draw(cg.uni(0.0, 200.0, 4))
    if typ == "P":
        gp["pressure"] = draw(st.one_of(cg.logu(0.01, 1000.0, 4), st.sampled_from([1.0, 10.0, 100.0])))
        if "H2O(g)" in names and gp["pressure"] < 1.5 * psat_water(tc):
            names = [n for n in names if n != "H2O(g)"] or ["CO2(g)"]
        pmax = gp["pressure"]
        gp["volume"] = min(gp["volume"], 5.0)
    else:
        pmax = 500.0
    gp["equilibrate"] = typ == "V" and draw(st.integers(0, 4)) == 0
    comps = []
    for n in names:
        p0 = 0.0 if draw(st.integers(0, 5)) == 0 else draw(cg.logu(max(1e-3, 1e-3 * pmax), pmax, 4))
        comps.append([n, p0])
    gp["comps"] = comps
    parts["gp"] = gp
    # user binary interaction parameters between distinct components
    kij = []
    if len(names) >= 2 and draw(st.integers(0, 3)) == 0:
        for _ in range(draw(st.integers(1, 2))):
            i = draw(st.integers(0, len(names) - 2))
            j = draw(st.integers(i + 1, len(names) - 1))
            kij.append([names[i], names[j], draw(cg.uni(-0.3, 0.6, 3))])
    parts["kij"] = kij
    parts["minerals"] = draw(st.sampled_from([[], [], [], ["Calcite"], ["Calcite", "Dolomite"]]))
    rx = None
    if draw(st.integers(0, 3)) == 0:
        rx = {"what": draw(st.sampled_from(["HCl", "NaOH", "NaCl", "NaHCO3"])), "moles": draw(cg.logu(1e-4, 0.05, 3)),
              "steps": draw(st.integers(1, 3))}
    parts["reaction"] = rx
    parts["rtemp"] = draw(cg.uni(0.0, 200.0, 4)) if draw(st.integers(0, 5)) == 0 else None
    if parts["rtemp"] is not None and typ == "P" and "H2O(g)" in names and gp["pressure"] < 1.5 * psat_water(parts["rtemp"]):
        parts["rtemp"] = None
    return finish(parts)


def gas_names(parts):
    if parts["kind"] == "equi":
        return [e[0] for e in parts["equi"]]
    return [c[0] for c in parts["gp"]["comps"]]


def gas_elements(parts, name):
    for g in parts["custom"]:
        if g["name"] == name:
            return CUSTOM[g["tpl"]][1]
    return GAS_ELEMENTS[name]


def tracked_elements(parts):
    els = []
    for n in gas_names(parts):
        for e in gas_elements(parts, n):
            if e not in els:
                els.append(e)
    return els


def finish(parts):
    """render the input text; the case keeps the structure (for the oracle) and the text (what is run)"""
    L = ["KNOBS", " -convergence_tolerance 1e-12", " -iterations 400"]
    if parts["custom"]:
        L.append("PHASES")
        for g in parts["custom"]:
            rx, els, lk, _ = CUSTOM[g["tpl"]]
            L += [g["name"], " " + rx, " " + lk]
            if "tc" in g:
                d = "-" if g["dash"] else ""
                L.append(" %sT_c %s; -P_c %s; -Omega %s" % (d, cg.fmt(g["tc"]), cg.fmt(g["pc"]), cg.fmt(g["omega"])))
    if parts.get("kij"):
        L.append("GAS_BINARY_PARAMETERS")
        for a, b, k in parts["kij"]:
            L.append(" %s %s %s" % (a, b, cg.fmt(k)))
    L.append(cg.render_solution(parts["sol"]))
    names = gas_names(parts)
    if parts["kind"] == "equi":
        L.append("EQUILIBRIUM_PHASES 1")
        for n, si, m in parts["equi"]:
            L.append(" %s %s %s" % (n, cg.fmt(si), cg.fmt(m)))
        for m in parts["minerals"]:
            L.append(" %s 0 0.05" % m)
    else:
        gp = parts["gp"]
        L.append("GAS_PHASE 1")
        L.append(" -fixed_pressure" if gp["type"] == "P" else " -fixed_volume")
        if gp["type"] == "P":
            L.append(" -pressure %s" % cg.fmt(gp["pressure"]))
        L.append(" -volume %s" % cg.fmt(gp["volume"]))
        L.append(" -temperature %s" % cg.fmt(gp["temp"]))
        if gp["equilibrate"]:
            L.append(" -equilibrate 1")
        for n, p0 in gp["comps"]:
            L.append(" %s %s" % (n, "" if gp["equilibrate"] else cg.fmt(p0)))
        if parts["minerals"]:
            L.append("EQUILIBRIUM_PHASES 1")
            for m in parts["minerals"]:
                L.append(" %s 0 0.05" % m)
        if parts["reaction"]:
            r = parts["reaction"]
            L.append("REACTION 1\n %s 1\n %s moles in %d steps" % (r["what"], cg.fmt(r["moles"]), r["steps"]))
        if parts["rtemp"] is not None:
            L.append("REACTION_TEMPERATURE 1\n %s" % cg.fmt(parts["rtemp"]))
    L.append("SELECTED_OUTPUT 1\n -reset false\n -state true\n -gases " + " ".join(names))
    heads = ["gas_p", "gas_vm", "tk", "patm"]
    items = ["GAS_P", "GAS_VM", "TK", "PRESSURE"]
    for i, n in enumerate(names):
        heads += ["n%d" % i, "p%d" % i, "f%d" % i, "s%d" % i, "e%d" % i]
        items += ['GAS("%s")' % n, 'PR_P("%s")' % n, 'PR_PHI("%s")' % n, 'SI("%s")' % n, 'EQUI("%s")' % n]
    for e in tracked_elements(parts):
        heads.append("sys_" + e)
        items.append('SYS("%s")' % e)
    L.append("USER_PUNCH 1\n -headings " + " ".join(heads) + "\n -start\n 10 PUNCH " + ", ".join(items) + "\n -end")
    L.append("END")
    parts["input"] = "\n".join(L) + "\n"
    return parts


# ------------------------------------------------------------------------------- oracle
def rel(a, b):
    return abs(a - b) / max(abs(a), abs(b), 1e-300)


def model_for(case):
    """critical constants and k_ij from the text of the database, then of the input (later definitions win)"""
    g, k = eos.parse_database(dbtext(case["db"]))
    g2, k2 = eos.parse_database(case["input"])
    g = dict(g)
    g.update(g2)
    k = dict(k)
    k.update(k2)
    return g, k


def single_root_volume(M, P):
    """molar volume of the only real root of the cubic at P, or None when the cubic has three real roots / is borderline"""
    d = M.discriminant(P)
    if d > -1e-9 * M.disc_scale(P):
        return None
    z = M.real_roots_Z(P)
    if len(z) != 1:
        return None
    return z[0] * M.RT / P


def check_case(case, ctx):
    names = gas_names(case)
    gases_db, kij = model_for(case)
    for n in names:
        if n not in gases_db:
            raise Violation("harness", "gas %s not found in the database text" % n)
    crit = [gases_db[n].has_crit for n in names]
    if any(crit) and not all(crit):
        raise Discard("mixed_ideal_pr")          # excluded by construction (engine error by documentation)
    pr = all(crit)
    I = lib.fresh(case["db"])
    try:
        rc = I.run_string(case["input"])
        if rc != 0 or I.errors().strip():
            raise Discard("run_error")
        T = I.table()
        if T.rows < 2:
            raise Violation("rows", "no selected-output rows")
        rows = T.dicts()
    finally:
        I.close()
    isoln = [r for r in rows if r["state"] == "i_soln"]
    react = [r for r in rows if r["state"] == "react"]
    if len(isoln) != 1 or not react:
        raise Violation("rows", "expected one i_soln row and >=1 react rows, got states %r" % [r["state"] for r in rows])
    for r in rows:
        for k, v in r.items():
            if isinstance(v, float) and (math.isnan(v) or math.isinf(v)):
                raise Violation("finite", "non-finite value %r in column %s" % (v, k))
    classes = ["db=" + case["db"], "eos=" + ("PR" if pr else "ideal"), "kind=" + case["kind"], "ngas=%d" % len(names)]
    if case["custom"]:
        classes.append("custom_gases_" + ("pr" if pr else "ideal"))
    if case.get("kij"):
        classes.append("user_kij")
    info = {"nt": False, "classes": classes}
    G = [gases_db[n] for n in names]
    if case["kind"] == "equi":
        for r in react:
            check_equi(case, r, names, G, kij, pr, info, ctx)
    else:
        for r in react:
            check_gas_row(case, r, isoln[0], names, G, kij, pr, info, ctx)
    return {"nontrivial": info["nt"], "classes": sorted(set(info["classes"]))}


def check_equi(case, r, names, G, kij, pr, info, ctx):
    Tk = r["tk"]
    if rel(Tk, case["sol"]["temp"] + 273.15) > 1e-12:
        raise Violation("temperature", "TK %r but the solution temperature is %r C" % (Tk, case["sol"]["temp"]))
    present = 0
    for i, n in enumerate(names):
        target = case["equi"][i][1]
        P = 10.0 ** target
        si, phi, pp, left = r["s%d" % i], r["f%d" % i], r["p%d" % i], r["e%d" % i]
        if si <= -99:
            continue
        lnphi = 0.0
        if pr:
            if rel(pp, P) > 1e-9:
                raise Violation("equi_pressure", "%s: PR_P %r but the target log10 P is %r (P=%r)" % (n, pp, target, P))
            M = eos.Mixture([G[i]], [1.0], Tk, kij)
            V = single_root_volume(M, P)
            if V is None:
                ctx.event("three_root_skipped")
                info["classes"].append("three_root")
                continue
            lnphi = M.ln_phi(P, V)[0]
            if not (LNPHI_LO + 2e-2 < lnphi < LNPHI_HI - 2e-2):
                ctx.event("phi_outside_clamp")
                if not (0.0099 <= phi <= 85.5):
                    raise Violation("phi_clamp", "%s: PR_PHI %r outside the documented 0.01..85 clamp" % (n, phi))
                continue
            if rel(phi, math.exp(lnphi)) > TOL_PHI:
                raise Violation("equi_phi", "%s at P=%r atm T=%r K: PR_PHI %r, Peng-Robinson gives %r (rel %.3g)" % (
                    n, P, Tk, phi, math.exp(lnphi), rel(phi, math.exp(lnphi))))
            if abs(lnphi) > 1e-3:
                info["nt"] = True
        want = target + lnphi / math.log(10.0)
        if left > 0:
            present += 1
            if abs(si - want) > 1e-7:
                raise Violation("equi_fugacity", "%s present (%r mol): SI %r but log10(phi P) = %r" % (n, left, si, want))
        else:
            if si > want + 1e-7:
                raise Violation("equi_fugacity", "%s exhausted but SI %r exceeds log10(phi P) = %r" % (n, si, want))
            info["classes"].append("equi_exhausted")
    if present >= 2:
        info["nt"] = True
    if present:
        info["classes"].append("equi_present")


def element_total(case, names, moles):
    tot = {}
    for n, m in zip(names, moles):
        for e, c in gas_elements(case, n).items():
            tot[e] = tot.get(e, 0.0) + c * m
    return tot


def check_gas_row(case, r, r0, names, G, kij, pr, info, ctx):
    gp = case["gp"]
    Tk = r["tk"]
    want_t = (case["rtemp"] if case["rtemp"] is not None else case["sol"]["temp"]) + 273.15
    if rel(Tk, want_t) > 1e-12:
        raise Violation("temperature", "TK %r, input says %r" % (Tk, want_t))
    n = [r["n%d" % i] for i in range(len(names))]
    if any(x < 0 for x in n):
        raise Violation("moles", "negative gas moles %r" % n)
    ntot = math.fsum(n)
    P, Vm = r["gas_p"], r["gas_vm"]
    si = [r["s%d" % i] for i in range(len(names))]
    phi = [r["f%d" % i] for i in range(len(names))]
    fixedP = gp["type"] == "P"
    info["classes"].append("type=" + gp["type"])
    if gp["equilibrate"]:
        info["classes"].append("equilibrate")
    exists = ntot >= 1e-12 and P > 0
    # ---------------------------------------------------------------- (6) initial moles through the EOS (element totals)
    if not gp["equilibrate"]:
        check_initial(case, r, r0, names, G, kij, pr, info, ctx)
    if not exists:
        info["classes"].append("gas_absent")
        if fixedP:
            # a fixed-pressure phase that does not exist: the equilibrium partial pressures cannot reach P
            s = 0.0
            for i in range(len(names)):
                if si[i] > -99:
                    if not (0.0099 <= phi[i] <= 85.5):
                        raise Violation("phi_clamp", "%s: PR_PHI %r outside 0.01..85" % (names[i], phi[i]))
                    s += 10.0 ** si[i] / (phi[i] if pr else 1.0)
            if s > gp["pressure"] * (1 + 1e-6):
                raise Violation("existence", "no gas phase, but sum of equilibrium partial pressures %r > fixed P %r" % (s, gp["pressure"]))
        return
    info["classes"].append("P_decade=%d" % int(math.floor(math.log10(P))))
    # ---------------------------------------------------------------- volume / pressure bookkeeping
    if fixedP:
        if rel(P, gp["pressure"]) > 1e-12:
            raise Violation("fixed_pressure", "GAS_P %r differs from the fixed pressure %r" % (P, gp["pressure"]))
        V = r["volume"]
    else:
        V = gp["volume"]
        if rel(r["volume"], V) > 1e-12:
            raise Violation("fixed_volume", "-gases volume %r, fixed volume %r" % (r["volume"], V))
    if rel(Vm * ntot, V) > 1e-9:
        raise Violation("molar_volume", "GAS_VM %r * total moles %r != volume %r" % (Vm, ntot, V))
    if rel(r["pressure"], P) > 1e-12 or rel(r["total mol"], ntot) > 1e-9:
        raise Violation("gases_columns", "-gases pressure/total mol %r/%r vs GAS_P %r, sum GAS %r" % (r["pressure"], r["total mol"], P, ntot))
    x = [v / ntot for v in n]
    live = [i for i in range(len(names)) if n[i] > 0]
    # ---------------------------------------------------------------- (1) partial pressures
    if pr:
        pp = [r["p%d" % i] for i in range(len(names))]
        for i in live:
            if abs(pp[i] - x[i] * P) > TOL_PSUM * P:
                raise Violation("partial_pressure", "%s: PR_P %r but x*P = %r (P=%r)" % (names[i], pp[i], x[i] * P, P))
        if abs(math.fsum(pp[i] for i in live) - P) > TOL_PSUM * P * len(live):
            raise Violation("partial_pressure_sum", "sum of PR_P %r != P %r" % (math.fsum(pp[i] for i in live), P))
    # ---------------------------------------------------------------- (2,3) equation of state and fugacity coefficients
    skipped = False
    if not pr:
        if rel(P * V, ntot * eos.R_LATM * Tk) > TOL_EOS:
            raise Violation("ideal_gas", "P V = %r but n R T = %r (P=%r V=%r n=%r T=%r)" % (P * V, ntot * eos.R_LATM * Tk, P, V, ntot, Tk))
        for i in live:
            if phi[i] != 1.0:
                raise Violation("ideal_phi", "ideal gas %s has PR_PHI %r" % (names[i], phi[i]))
        lnphi = [0.0] * len(names)
    else:
        M = eos.Mixture([G[i] for i in live], [n[i] for i in live], Tk, kij)
        Pc = M.pressure(Vm) if Vm > M.bm else -1.0
        if Pc <= 0:
            skipped = True
            ctx.event("nonpositive_eos_pressure_skipped")
        elif M.discriminant(Pc) > -1e-9 * M.disc_scale(Pc) or M.discriminant(P) > -1e-9 * M.disc_scale(P):
            skipped = True
            ctx.event("three_root_skipped")
            info["classes"].append("three_root")
        lnphi = [None] * len(names)
        if not skipped:
            if rel(Pc, P) > TOL_EOS:
                raise Violation("peng_robinson", "reported P=%r Vm=%r T=%r x=%r: the Peng-Robinson pressure at this molar volume is %r (rel %.3g)" % (
                    P, Vm, Tk, [x[i] for i in live], Pc, rel(Pc, P)))
            lp = M.ln_phi(P, Vm)
            if lp is None:
                raise Violation("peng_robinson", "Z <= B at the reported state P=%r Vm=%r" % (P, Vm))
            for k, i in enumerate(live):
                lnphi[i] = lp[k]
                if not (0.0099 <= phi[i] <= 85.5):
                    raise Violation("phi_clamp", "%s: PR_PHI %r outside the documented 0.01..85 clamp" % (names[i], phi[i]))
                if not (LNPHI_LO + 2e-2 < lp[k] < LNPHI_HI - 2e-2):
                    ctx.event("phi_outside_clamp")
                    info["classes"].append("phi_clamped")
                    continue
                if rel(phi[i], math.exp(lp[k])) > TOL_PHI:
                    raise Violation("phi", "%s in %r x=%r at P=%r Vm=%r T=%r: PR_PHI %r, Peng-Robinson mixture expression gives %r (rel %.3g)" % (
                        names[i], [names[j] for j in live], [x[j] for j in live], P, Vm, Tk, phi[i], math.exp(lp[k]), rel(phi[i], math.exp(lp[k]))))
                if abs(lp[k]) > 1e-3:
                    info["nt"] = True
            info["classes"].append("pr_checked")
    # ---------------------------------------------------------------- (4) fugacity = 10^SI, (5) fixed-pressure sum
    ssum = 0.0
    for i in live:
        if si[i] <= -99:
            raise Violation("fugacity", "%s has %r mol in the gas but no saturation index" % (names[i], n[i]))
        peq = 10.0 ** si[i] / phi[i]
        ssum += peq
        if abs(peq - x[i] * P) > TOL_FUG * x[i] * P + 1e-12 * P:
            raise Violation("fugacity", "%s: 10^SI/phi = %r but partial pressure x*P = %r (SI=%r phi=%r x=%r P=%r)" % (
                names[i], peq, x[i] * P, si[i], phi[i], x[i], P))
    if fixedP and abs(ssum - P) > 1e-6 * P:
        raise Violation("existence", "gas phase exists but equilibrium partial pressures sum to %r, fixed P %r" % (ssum, P))
    if len(live) >= 2:
        info["nt"] = True
        info["classes"].append("multi_gas")


def check_initial(case, r, r0, names, G, kij, pr, info, ctx):
    """moles put into the system by the initial partial pressures = EOS at (sum p, T_gas, x = p/sum p) * volume"""
    gp = case["gp"]
    p0 = [c[1] for c in gp["comps"]]
    Ptot = math.fsum(p0)
    if Ptot <= 0:
        return
    Tg = gp["temp"] + 273.15
    if not pr:
        n0 = [p * gp["volume"] / (eos.R_LATM * Tg) for p in p0]
    else:
        idx = [i for i in range(len(names)) if p0[i] > 0]
        M = eos.Mixture([G[i] for i in idx], [p0[i] for i in idx], Tg, kij)
        V = single_root_volume(M, Ptot)
        if V is None:
            ctx.event("initial_three_root_skipped")
            return
        n0 = [0.0] * len(names)
        for k, i in enumerate(idx):
            n0[i] = M.x[k] * gp["volume"] / V
    want = element_total(case, names, n0)
    other = set()
    for m in case["minerals"]:
        other |= {"Calcite": {"C", "Ca"}, "Dolomite": {"C", "Ca", "Mg"}}[m]
    if case["reaction"] and case["reaction"]["what"] == "NaHCO3":
        other.add("C")
    checked = False
    for e, w in want.items():
        if e in other or w <= 0:
            continue
        got = r["sys_" + e] - r0["sys_" + e]
        if abs(got - w) > TOL_EOS * w + 1e-9 * abs(r0["sys_" + e]) + 1e-14:
            raise Violation("initial_moles", "element %s: system total rose by %r mol when the gas phase was added, EOS (%s) at sum p=%r atm, T=%r K, V=%r L gives %r" % (
                e, got, "PR" if pr else "ideal", Ptot, Tg, gp["volume"], w))
        checked = True
    if checked:
        info["classes"].append("initial_moles_checked")


def run(ctx):
    ctx.hyp(case_strategy(), lambda c: check_case(c, ctx), BUDGET[ctx.tier], "gas")


def debug_discards(n=300, seed_=5):
    """development helper: error texts of discarded cases, class histogram"""
    from hypothesis import given, settings, seed
    import collections
    cnt = collections.Counter()
    cls = collections.Counter()

    class C:
        def event(self, name, n=1):
            cls["ev:" + name] += n
    c = C()

    @settings(max_examples=n, database=None, deadline=None)
    @seed(seed_)
    @given(case_strategy())
    def t(case):
        try:
            out = check_case(case, c)
            for k in out["classes"]:
                cls[k] += 1
            cls["NT"] += out["nontrivial"]
            cls["ALL"] += 1
        except Discard:
            I = lib.fresh(case["db"])
            I.run_string(case["input"])
            cnt[(case["db"], case["kind"], I.errors().strip().split("\n")[0][:150])] += 1
            I.close()
    t()
    for k, v in cnt.most_common(30):
        print(v, k)
    for k, v in sorted(cls.items()):
        print("  ", k, v)
