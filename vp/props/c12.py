"""C12 - kinetic reactions transfer exactly what they integrate, within tolerance.

What `-tol` means (PHREEQC manual, KINETICS; kinetics.cpp rk_kinetics / run_reactions)
--------------------------------------------------------------------------------------
`-tol` is an ABSOLUTE tolerance in MOLES of reaction, per kinetic reactant ("Tolerance for integration procedure
(moles)", manual p. 107).
  * Runge-Kutta (rk_kinetics): for every internal integration interval h the difference between the 5th- and
    the embedded 4th-order estimate of the integrated rate (moles reacted in h) is divided by tol; the interval is
    accepted only if that ratio is <= 1, otherwise h is reduced.  (`/* tol is in moles/l */ l_error /= tol`.)
    With -runge_kutta 1/2/3 the scheme may leave early when the rates (moles per interval) of the evaluated stages
    agree within tol ("equal_rate"), i.e. again an absolute amount of moles per interval.
  * CVODE (run_reactions): reltol = 0, abstol[j] = tol of reactant j; y = moles reacted; BDF of maximum order
    -cvode_order, at most -cvode_steps internal steps per CVode call, at most -bad_step_max calls.
So the user tolerance bounds the LOCAL error, in moles, of one internal interval.  The property speaks of
"100x the user tolerance": the oracle bound is  |m - m_exact| <= 100 * tol  [moles], absolute, with no scaling by m0,
by the number of steps or by time.  To this 1e-11 * scale (scale = largest reactant amount in the problem) is added
for the speciation solver's own convergence tolerance (DESIGN 4 rule 2; inputs set 1e-12) and floating point, and -
only where the rate law reads a dissolved amount (family approach_c, library rates) - the solute-balance residual
that the very same run reports (the closed form presupposes an exactly closed balance; closure is C02's clause and
is asserted separately here with C02's tolerance).

Probes (grids of 6 000 + 3 400 + 1 600 runs and random searches of 50 000 runs; first order / approach / chain,
tol 1e-6..1e-12, k*T 1e-3..20, m0 1e-3..1): largest global error / tol
  Runge-Kutta 1/2/3/6, any -step_divide, <= 20 steps       <= 0.4 when tol is small against the amount reacting per step;
     with the largest admitted tol (rates of the stages agree within tol -> the -runge_kutta 1/2/3 early exits are taken)
     about 1-2 tol per integration: chained 1-5: 9, 6-12: 19, 13-20: 34, 21-40: 47, 41-70: 101, > 70: 110
  CVODE order 5, tol/m0 = 1e-12, n chained integrations     n=1: 44, n=2: 47, n=4: 68, n=8: 50+, n=20: 167
  CVODE order 5, n <= 2, tol/m0 >= 1e-10                     27.5 (-cvode_steps >= 5000, no restart)
  CVODE order 4 / 3 / 2 / 1 (single integration)             69 / 390 / 3 000 / 33 000  (error ~ tol^(q/(q+1)))
  CVODE order 5, n <= 2, tol/m0 >= 1e-10, by -cvode_steps (tree with the restart fix, /repo 7ef03c07):
     10: 2 739, 20: 338, 22: 227, 24: 168, 26: 92, 28: 52, 30: 30, 32-1000: 19-32   (every restart begins again at order 1)
Findings:
 K1 (FIXED in /repo 7ef03c07) the CVODE restart path resumed from a rejected trial solution (cvode.cpp CVStep recorded the work
    vector y instead of zn[0]): with -cvode_steps <= 50 errors up to 0.2*m0, silently.  Regression replay
    replays/C12/fixed-cvode-restart-rejected-trial.json.
 K2 (KNOWN, replays/C12/known) the global error is not bounded by 100*tol, because tol only bounds the local error of an internal
    interval: CVODE with -cvode_order <= 4; CVODE with more than a few chained integrations (20 incremental steps with the default
    order: 167*tol); CVODE at very tight relative tolerance (order 5, one integration: 7 at tol/m0 = 1e-6, 21 at 1e-10, 44 at 1e-12,
    i.e. ~ tol^(-1/6)); CVODE with -cvode_steps < 30 (restarts at order 1); Runge-Kutta 1/2/3 early exits beyond about 40 chained
    integrations as they arise from transport sub-mixes.
The accuracy clauses (exact solution, path independence) are asserted for CVODE only with the default order 5, -cvode_steps >=
CVODE_MIN_STEPS = 40, at most ACC_MAX_CHAINED = 2 chained integrations and tol >= CVODE_MIN_REL_TOL = 1e-10 of the largest amount
(largest ratio seen there: 32; two such ways may differ by twice that: a factor 1.5-2 of head room on the path-independence
clause), for Runge-Kutta up to RK_MAX_CHAINED = 20 chained integrations.  The K2 trigger classes are excluded BY CONSTRUCTION
from the accuracy clauses and counted (`excluded_known:*`); ways in those classes are still run and checked for every clause
that does not involve the tolerance (non-negative amounts, solute balance, KIN_DELTA, time bookkeeping).

Step-list semantics (cxxKinetics::Current_step, manual): with INCREMENTAL_REACTIONS false every entry of an explicit
`-steps` list is a cumulative time from zero (each step restarts from the initial state); with true the entries are
increments.  `T in n steps` means n equal increments whose sum is T in both modes.  The reference model renders the
same partition 0 < t1 < ... < T of the interval in the representation that fits the mode.
"""
import math
from hypothesis import strategies as st
from .. import lib, chemgen as cg
from ..core import Violation, Discard

ID = "C12"
LEVEL = "exploration"
RULE = ("Hypothesis-generated KINETICS/RATES problems. Closed-form families: zero order (incl. exhaustion inside the interval), "
        "first order in M, linear approach of M to a fixed amount (from above and below), linear approach of a dissolved amount to a "
        "fixed value, two-member decay chain (Bateman); k*T in [1e-3,20], -tol 1e-6..1e-12 (not above 5e-4 of the amount that reacts), "
        "formulas of 1-2 neutral salts with coefficients. Each case reaches the same time T in 2-3 ways drawn from {single step, n equal "
        "steps, explicit list <= 20 steps} x {INCREMENTAL_REACTIONS true,false} x {-runge_kutta 1/2/3/6 with -step_divide/-bad_step_max, "
        "-cvode with -cvode_order 1-5 / -cvode_steps 20-20000 (restarts included) / -bad_step_max} x {batch, ADVECTION 1 cell, TRANSPORT 1 cell with flux or "
        "constant boundaries (sub-mixes), TRANSPORT column of 2-5 cells with forward or backward flow, flux or closed boundaries, no "
        "dispersion/diffusion, the same reactant in every cell and every cell compared with the closed form (laws that release solutes only)}, each way in a fresh instance; the first two ways are always accuracy-bearing (Runge-Kutta, or "
        "CVODE order 5 with -cvode_steps >= 40, <= 2 chained integrations and tol >= 1e-10 of the largest amount), the third may lie in a "
        "known-finding class (CVODE order <= 4, -cvode_steps < 40, > 2 chained integrations (Runge-Kutta: > 20), tol < 1e-10 of the largest amount) where only "
        "the tolerance-free clauses are asserted. Library leg: phreeqc.dat RATES "
        "Calcite, Pyrite, Organic_C, K-feldspar, Albite, Quartz in their documented set-ups, same relations without the closed form. "
        "Non-trivial = the reaction moved > 1e-3 of m0, the bound 100*tol is < 10 % of the amount moved, >= 2 accuracy-bearing ways "
        "completed and the case is not a pure exhaustion; distinct by SHA-256 of the case")
ASSUMPTIONS = ["-tol is an absolute tolerance in moles of reaction per internal integration interval (manual; kinetics.cpp), so '100x the user "
               "tolerance' is 100*tol moles, absolute",
               "closed forms evaluated in IEEE double with math.exp/expm1 are exact to 1e-15 relative",
               "non-incremental -steps entries are cumulative times from zero, incremental entries are increments (manual)",
               "the speciation solver's convergence tolerance (1e-12, set in every input) and rounding add at most 1e-11 of the largest amount",
               "rate laws that read a dissolved amount inherit the run's own solute-balance residual (asserted separately with C02's "
               "tolerance): 4x the largest residual reported by the run is added to the bound for those laws only",
               "known finding K2 (global error beyond 100*tol: CVODE order <= 4 / -cvode_steps < 40 / > 2 chained integrations / tol < 1e-10 of the amounts; Runge-Kutta > 20 chained integrations) is excluded by "
               "construction from the accuracy clauses and re-reported from replays/C12/known",
               "library-rate set-ups stay in the smooth regime of their rate laws (no exhaustion of the electron acceptor / reactant)"]
TECHNIQUE = "property-based testing (Hypothesis): closed-form reference model + multi-path differential (partition / incremental / integrator / host)"
LEVEL_TEXT = ("Exploration: about 2 600 (quick) / 88 000 (thorough) generated rate problems per run are integrated 2-3 different "
              "ways each and compared with the exact solution, with each other, with the solute balance and with the time bookkeeping; no "
              "exhaustive claim. Configurations inside the K2 known-finding classes are only checked for the tolerance-free clauses.")
FLOORS = {"quick": 300, "thorough": 3000}
SHARDS = {"quick": 8, "thorough": 16}
BUDGET = {"quick": (300, 30), "thorough": (5000, 500), "replay": (1, 1)}   # (closed-form, library) cases per shard

SALTS = {"NaCl": {"Na": 1, "Cl": 1}, "KBr": {"K": 1, "Br": 1}, "LiCl": {"Li": 1, "Cl": 1}, "KNO3": {"K": 1, "N": 1},
         "NaBr": {"Na": 1, "Br": 1}, "LiBr": {"Li": 1, "Br": 1}, "KCl": {"K": 1, "Cl": 1}, "NaNO3": {"Na": 1, "N": 1}}
ELS = ["Na", "K", "Li", "Cl", "Br", "N"]
SOLNAME = {"N": "N(5)"}
TOLS = [1e-6, 1e-7, 1e-8, 1e-9, 1e-10, 1e-11, 1e-12]
ACC_MAX_CHAINED = 2          # CVODE (order 5): accuracy clauses asserted up to this many chained integrations
RK_MAX_CHAINED = 20          # Runge-Kutta: accuracy clauses asserted up to this many chained integrations (DESIGN: step lists <= 20)
CVODE_MIN_REL_TOL = 1e-10    # CVODE accuracy clauses only for tol >= this * (largest reactant amount): error/tol grows like tol^(-1/6)
CVODE_MIN_STEPS = 40         # CVODE accuracy clauses only for -cvode_steps >= this (every restart begins again at order 1; probe: 24 -> 168*tol, 28 -> 52, 30 -> 30)
CVODE_STEPS_ACC = [40, 50, 70, 100, 100, 200, 500, 5000, 20000]


def prepare(tier):
    lib.build("rel", ["libiphreeqc_rel.so"])


# ------------------------------------------------------------------------------- generator
def partition(max_n=20):
    return st.one_of(
        st.just({"type": "single"}),
        st.integers(2, max_n).map(lambda n: {"type": "equal", "n": n}),
        st.lists(cg.uni(0.02, 0.98, 3), min_size=1, max_size=max_n - 1, unique=True).map(
            lambda fr: {"type": "list", "fr": sorted(fr) + [1.0]}),
    )


@st.composite
def rk_integ(draw):
    sd = draw(st.sampled_from([None, None, 2.0, 10.0, 100.0, 0.5, 0.05, 0.01]))
    return {"type": "rk", "rk": draw(st.sampled_from([1, 2, 3, 6])), "bad_step_max": draw(st.sampled_from([200, 500, 1000])),
            "step_divide": sd}


@st.composite
def acc_way(draw, hosts, cv_ok=True):
    """a way for which the accuracy clauses are asserted (cv_ok: the tolerance is not tighter than CVODE_MIN_REL_TOL)"""
    host = draw(st.sampled_from(hosts))
    cv = draw(st.integers(0, 4)) >= 3 and cv_ok
    w = {"host": host}
    if cv:
        w["integ"] = {"type": "cvode", "order": 5, "steps": draw(st.sampled_from(CVODE_STEPS_ACC)),
                      "bad_step_max": draw(st.sampled_from([500, 2000]))}
    else:
        w["integ"] = draw(rk_integ())
    if host == "batch":
        w["incr"] = draw(st.booleans())
        w["part"] = draw(partition(ACC_MAX_CHAINED if (cv and w["incr"]) else 20))
    elif host == "transport_multi":
        # 2-5 cells, no dispersion/diffusion: every shift is one integration per cell plus the documented half steps of the
        # inflow cell (first_c: cell 1 for forward, the last cell for backward flow) -> at most 2 chained integrations per shift
        w["incr"] = True
        w["cells"] = draw(st.integers(2, 5))
        w["flow"] = draw(st.sampled_from(["forward", "back"]))
        w["bc"] = draw(st.sampled_from(["flux flux", "flux flux", "closed closed"]))
        w["part"] = {"type": "equal", "n": draw(st.integers(1, (ACC_MAX_CHAINED // 2) if cv else (RK_MAX_CHAINED // 2)))}
    else:
        w["incr"] = True
        const = host == "transport_const"
        if const:
            # CVODE: keep the chained integrations (shifts x sub-mixes; probe: 1 per shift for pure diffusion with mixx <= 0.6,
            # 3 per shift with flow) within ACC_MAX_CHAINED by construction
            w["mixx"] = draw(cg.uni(0.1, 0.6 if cv else 4.0, 3))           # 4*D*dt/L^2 -> 1..7 mixing sub-steps
            w["flow"] = "diffusion_only" if cv else draw(st.sampled_from(["diffusion_only", "forward", "back"]))
        nmax = ACC_MAX_CHAINED if cv else 12
        if const and not cv:
            # keep shifts x sub-mixes within RK_MAX_CHAINED (probe: sub-mixes per shift 3/5/8 with flow, 1/2/4/7 without, for
            # mixx <= 1/2/4 resp. <= 0.6/1/2/4); whatever still exceeds it is counted and classified after the run
            mx = w["mixx"]
            per = (8 if mx > 2 else 5 if mx > 1 else 3) if w["flow"] != "diffusion_only" else (7 if mx > 2 else 4 if mx > 1 else 2 if mx > 0.6 else 1)
            nmax = min(12, RK_MAX_CHAINED // per)
        w["part"] = {"type": "equal", "n": draw(st.integers(1, nmax))}
        if host == "transport_flux":
            w["flow"] = draw(st.sampled_from(["forward", "back"]))
    return w


@st.composite
def kf_way(draw, hosts, tol, cv_ok=True):
    """a CVODE way inside a known-finding trigger class (K2: restarts at small -cvode_steps, low order / many chained integrations / very tight
    relative tolerance); sizes are kept small because low orders need 1e3..1e5 internal steps at tight tolerances"""
    sub = draw(st.sampled_from(["order", "order", "restart", "accum"] + ([] if cv_ok else ["tight", "tight"])))
    hs = [h for h in hosts if h in ("batch", "advection", "transport_flux")] or ["batch"]
    host = draw(st.sampled_from(hs))
    w = {"host": host, "incr": True}
    small = True
    if sub == "order":
        order = draw(st.sampled_from([1, 2, 3, 4]))
        if tol < 1e-7:
            order = max(order, 2)
        if tol < 1e-10:
            order = max(order, 3)
        w["integ"] = {"type": "cvode", "order": order, "steps": draw(st.sampled_from([100, 5000])), "bad_step_max": 2000}
    elif sub == "restart":
        steps = draw(st.sampled_from([20, 25])) if tol >= 1e-9 else draw(st.sampled_from([25, 30, 35]))
        w["integ"] = {"type": "cvode", "order": draw(st.sampled_from([3, 4, 5, 5])), "steps": steps, "bad_step_max": 2000}
    elif sub == "tight":
        w["integ"] = {"type": "cvode", "order": 5, "steps": draw(st.sampled_from([5000, 20000])), "bad_step_max": 500}
    else:
        w["integ"] = {"type": "cvode", "order": 5, "steps": 5000, "bad_step_max": 500}
        small = False
    if host == "batch":
        if small:
            w["incr"] = draw(st.booleans())
            w["part"] = draw(partition(3))
        else:
            w["part"] = draw(st.one_of(st.integers(ACC_MAX_CHAINED + 1, 20).map(lambda n: {"type": "equal", "n": n}),
                                       st.lists(cg.uni(0.02, 0.98, 3), min_size=ACC_MAX_CHAINED, max_size=19, unique=True).map(
                                           lambda fr: {"type": "list", "fr": sorted(fr) + [1.0]})))
    else:
        w["part"] = {"type": "equal", "n": draw(st.integers(1, 3) if small else st.integers(ACC_MAX_CHAINED + 1, 12))}
        if host == "transport_flux":
            w["flow"] = draw(st.sampled_from(["forward", "back"]))
    return w


@st.composite
def ways(draw, hosts, tol, scale):
    cv_ok = tol >= CVODE_MIN_REL_TOL * scale
    ws = [draw(acc_way(hosts, cv_ok)), draw(acc_way(hosts, cv_ok))]
    k = draw(st.integers(0, 3))
    if k == 1:
        ws.append(draw(acc_way(hosts, cv_ok)))
    elif k >= 2:
        ws.append(draw(kf_way(hosts, tol, cv_ok)))
    return ws


@st.composite
def formula(draw):
    names = draw(st.lists(st.sampled_from(sorted(SALTS)), min_size=1, max_size=2, unique=True))
    return [[n, draw(st.sampled_from([1.0, 1.0, 0.5, 2.0, 0.25]))] for n in names]


def formula_els(f):
    out = {}
    for n, c in f:
        for e, k in SALTS[n].items():
            out[e] = out.get(e, 0.0) + c * k
    return out


def case_scale(case):
    """largest reactant amount of the problem (floor 1e-3 mol)"""
    if case["kind"] != "cf":
        return max(case["m0"], 1e-3)
    a = [case["m0"], 1e-3]
    if case["family"] == "chain":
        a.append(case["p"]["b0"])
    if case["family"] == "approach_m":
        a.append(abs(case["p"]["minf"]))
    return max(a)


@st.composite
def cf_case(draw):
    fam = draw(st.sampled_from(["zero", "zero", "first", "first", "approach_m", "approach_c", "chain", "chain"]))
    T = draw(cg.logu(1.0, 1e8, 4))
    kT = draw(cg.logu(1e-3, 20.0, 4))
    m0 = draw(cg.logu(1e-3, 1.0, 4))
    case = {"kind": "cf", "family": fam, "T": T, "tol": None, "m0": m0, "water": draw(st.sampled_from([1.0, 1.0, 0.5, 2.0])),
            "temp": draw(st.sampled_from([25.0, 25.0, 10.0, 60.0]))}
    f1 = draw(formula())
    case["formula"] = f1
    need = {}          # moles of each element the solution must be able to give up
    p = {}
    if fam == "zero":
        p["k"] = kT * m0 / T            # k*T/m0 in [1e-3, 20]: exhaustion inside the interval when > 1
    elif fam == "first":
        p["k"] = kT / T
    elif fam == "approach_m":
        p["k"] = kT / T
        p["minf"] = float("%.4g" % (m0 * draw(st.sampled_from([0.0, 0.3, 0.9, 1.5, 3.0]))))
        if p["minf"] > m0:
            for e, c in formula_els(f1).items():
                need[e] = need.get(e, 0) + c * (p["minf"] - m0)
    elif fam == "approach_c":
        els = formula_els(f1)
        el = draw(st.sampled_from(sorted(els)))
        p["el"] = el
        p["k"] = kT / T / els[el]        # n' = c*k*(nsat-n): c*k*T in [1e-3, 20]
        p["dn"] = float("%.4g" % (m0 * els[el] * draw(st.sampled_from([0.9, 0.5, 0.1, -0.5]))))   # nsat - n0; < m0*c: never exhausts
        if p["dn"] < 0:
            for e, c in els.items():
                need[e] = need.get(e, 0) + c * (-p["dn"] / els[el])
    elif fam == "chain":
        p["k1"] = kT / T
        p["k2"] = draw(cg.logu(1e-3, 20.0, 4)) / T
        p["b0"] = float("%.4g" % (m0 * draw(st.sampled_from([0.0, 0.1, 1.0]))))
        f2 = draw(st.one_of(st.just(f1), formula()))
        case["formula2"] = f2
        for e, c in formula_els(f2).items():
            need[e] = need.get(e, 0) + c * m0          # B can grow by at most A0
    case["p"] = p
    # tolerance: any of the list that is small against the amount that reacts (else the bound 100*tol says nothing)
    m_init = [m0, p["b0"]] if fam == "chain" else [m0]
    moved = max(abs(a - b) for a, b in zip(exact(case, T), m_init))
    ok = [t for t in TOLS if t <= 5e-4 * moved] or [TOLS[-1]]
    case["tol"] = draw(st.sampled_from(ok))
    # solution: every tracked element present, enough of what precipitation takes up
    sol = {}
    for e in ELS:
        base = draw(cg.logu(1e-3, 0.3, 3))
        sol[e] = float("%.4g" % (base + 1.5 * need.get(e, 0.0) / case["water"]))
    case["sol"] = sol
    hosts = ["batch", "batch", "batch", "advection", "transport_flux", "transport_const", "transport_multi", "transport_multi"]
    if fam == "approach_c":
        hosts = ["batch"]                # the closed form needs a closed cell
    elif need:
        # a law that takes solutes up (approach from below, growth of the chain daughter) depletes the water that moves on to the
        # next cell: in a column the downstream cells would run out of solute (the engine then reduces the step for ever)
        hosts = [h for h in hosts if h != "transport_multi"]
    case["ways"] = draw(ways(hosts, case["tol"], case_scale(case)))
    return case


# ---- library rates: documented set-ups (phreeqc.dat comments / manual examples 6, 9, 15) with modest variation
@st.composite
def lib_case(draw):
    name = draw(st.sampled_from(["Calcite", "Pyrite", "Organic_C", "K-feldspar", "Albite", "Quartz"]))
    c = {"kind": "lib", "rate": name, "tol": draw(st.sampled_from([1e-8, 1e-9, 1e-10, 1e-11]))}
    if name == "Calcite":
        c["m0"] = draw(cg.logu(1e-3, 1e-1, 3)); c["parms"] = [draw(cg.logu(1e3, 1e5, 3)), draw(st.sampled_from([0.6, 0.67, 1.0]))]
        c["T"] = draw(cg.logu(3e2, 1e5, 3))
        c["solution"] = " pH %s\n C(4) %s\n Ca %s\n Na 10\n Cl 10 charge" % (cg.fmt(draw(cg.uni(5.5, 7.0, 3))), cg.fmt(draw(cg.logu(0.5, 5, 3))), cg.fmt(draw(cg.logu(0.05, 1, 3))))
        c["units"] = "mmol/kgw"; c["formula"] = None; c["els"] = {"Ca": 1, "C": 1}
    elif name == "Pyrite":
        c["m0"] = draw(cg.logu(1e-4, 1e-2, 3)); c["parms"] = [draw(cg.uni(0.0, 1.0, 2)), 0.67, 0.5, -0.11]
        c["T"] = draw(cg.logu(3e3, 3e5, 3))
        c["solution"] = " pH %s\n pe 12\n O(0) 0.5\n Na 10\n Cl 10 charge\n S(6) 1\n Fe(3) 1e-6" % cg.fmt(draw(cg.uni(3.0, 7.0, 3)))
        c["units"] = "mmol/kgw"; c["formula"] = None; c["els"] = {"Fe": 1, "S": 2}
    elif name == "Organic_C":
        c["m0"] = draw(cg.logu(1e-3, 1e-2, 3)); c["parms"] = []
        c["T"] = draw(cg.logu(3e5, 3e7, 3))
        c["solution"] = " pH 7\n pe 12\n O(0) 0.5\n Na 30\n Cl 10 charge\n N(5) %s\n S(6) %s" % (cg.fmt(draw(cg.logu(0.5, 5, 3))), cg.fmt(draw(cg.logu(0.5, 5, 3))))
        c["units"] = "mmol/kgw"; c["formula"] = "CH2O 1"; c["els"] = {"C": 1}
    elif name in ("K-feldspar", "Albite"):
        c["m0"] = draw(cg.logu(0.1, 3, 3)); c["parms"] = [draw(cg.logu(1, 20, 3)), draw(st.sampled_from([0.1, 1.0]))]
        c["T"] = draw(cg.logu(3e5, 5e7, 3))
        c["solution"] = " pH %s\n Na 1\n Cl 1 charge\n K 0.1\n C(4) 1" % cg.fmt(draw(cg.uni(4.0, 7.0, 3)))
        c["units"] = "mmol/kgw"; c["formula"] = None
        c["els"] = {"K": 1, "Al": 1, "Si": 3} if name == "K-feldspar" else {"Na": 1, "Al": 1, "Si": 3}
    else:
        c["m0"] = draw(cg.logu(10, 200, 3)); c["parms"] = [draw(cg.logu(0.05, 0.5, 3)), draw(st.sampled_from([1.0, 1.5, 10.0]))]
        c["T"] = draw(cg.logu(3e6, 3e8, 3))
        c["solution"] = " pH 7\n Na 1\n Cl 1 charge"
        c["units"] = "mmol/kgw"; c["formula"] = None; c["els"] = {"Si": 1}
    c["temp"] = draw(st.sampled_from([25.0, 25.0, 12.0, 40.0]))
    c["ways"] = draw(ways(["batch"], c["tol"], case_scale(c)))
    return c


# ------------------------------------------------------------------------------- rendering
def rates_text(case):
    fam = case["family"]
    if fam == "zero":
        body = [("Ra", ["10 if (M <= 0) then goto 40", "20 rate = PARM(1)", "30 moles = rate * TIME", "40 SAVE moles"])]
    elif fam == "first":
        body = [("Ra", ["10 rate = PARM(1) * M", "20 moles = rate * TIME", "30 SAVE moles"])]
    elif fam == "approach_m":
        body = [("Ra", ["10 rate = PARM(1) * (M - PARM(2))", "20 moles = rate * TIME", "30 SAVE moles"])]
    elif fam == "approach_c":
        el = case["p"]["el"]        # the element total (all valence states): the conserved quantity the closed form is written in
        body = [("Ra", ['10 n = TOT("%s") * TOT("water")' % el, "20 rate = PARM(1) * (PARM(2) - n)", "30 moles = rate * TIME", "40 SAVE moles"])]
    else:
        body = [("Ra", ["10 rate = PARM(1) * M", "20 moles = rate * TIME", "30 SAVE moles"]),
                ("Rb", ['10 rate = PARM(2) * M - PARM(1) * KIN("Ra")', "20 moles = rate * TIME", "30 SAVE moles"])]
    L = ["RATES"]
    for n, lines in body:
        L += [" " + n, " -start"] + [" " + x for x in lines] + [" -end"]
    return "\n".join(L)


def cum_times(part, T):
    if part["type"] == "single":
        return [T]
    if part["type"] == "equal":
        n = part["n"]
        return [i * T / n for i in range(1, n + 1)]
    return [f * T for f in part["fr"]]


def steps_line(w, T):
    part = w["part"]
    if part["type"] == "single":
        return " -steps %s" % cg.fmt(T)
    if part["type"] == "equal":
        return " -steps %s in %d steps" % (cg.fmt(T), part["n"])
    cum = cum_times(part, T)
    if w["incr"]:
        vals = [cum[0]] + [cum[i] - cum[i - 1] for i in range(1, len(cum))]
    else:
        vals = cum
    return " -steps " + " ".join(cg.fmt(v) for v in vals)


def integ_lines(g):
    if g["type"] == "cvode":
        return [" -cvode true", " -cvode_order %d" % g["order"], " -cvode_steps %d" % g["steps"], " -bad_step_max %d" % g["bad_step_max"]]
    L = [" -cvode false", " -runge_kutta %d" % g["rk"], " -bad_step_max %d" % g["bad_step_max"]]
    if g["step_divide"] is not None:
        L.append(" -step_divide %s" % cg.fmt(g["step_divide"]))
    return L


def formula_text(f):
    return " ".join("%s %s" % (n, cg.fmt(c)) for n, c in f)


def kinetics_block(case, w, nums="1"):
    L = ["KINETICS %s" % nums]
    if case["kind"] == "cf":
        p = case["p"]
        fam = case["family"]
        if fam == "chain":
            parms = [p["k1"], p["k2"]]
        elif fam == "approach_m":
            parms = [p["k"], p["minf"]]
        elif fam == "approach_c":
            parms = [p["k"], "NSAT"]
        else:
            parms = [p["k"]]
        ptxt = " ".join(x if isinstance(x, str) else cg.fmt(x) for x in parms)
        L += [" Ra", "  -formula %s" % formula_text(case["formula"]), "  -m0 %s" % cg.fmt(case["m0"]), "  -m %s" % cg.fmt(case["m0"]),
              "  -parms %s" % ptxt, "  -tol %s" % cg.fmt(case["tol"])]
        if fam == "chain":
            L += [" Rb", "  -formula %s" % formula_text(case["formula2"]), "  -m0 %s" % cg.fmt(max(p["b0"], case["m0"])),
                  "  -m %s" % cg.fmt(p["b0"]), "  -parms %s" % ptxt, "  -tol %s" % cg.fmt(case["tol"])]
    else:
        L += [" " + case["rate"]]
        if case["formula"]:
            L.append("  -formula %s" % case["formula"])
        L += ["  -m0 %s" % cg.fmt(case["m0"]), "  -m %s" % cg.fmt(case["m0"])]
        if case["parms"]:
            L.append("  -parms " + " ".join(cg.fmt(x) for x in case["parms"]))
        L.append("  -tol %s" % cg.fmt(case["tol"]))
    if w["host"] == "batch":
        L.append(steps_line(w, case["T"]))
    L += integ_lines(w["integ"])
    return "\n".join(L)


def solution_block(case, nums):
    if case["kind"] == "lib":
        return "SOLUTION %s\n temp %s\n units %s\n%s" % (nums, cg.fmt(case["temp"]), case["units"], case["solution"])
    L = ["SOLUTION %s" % nums, " temp %s" % cg.fmt(case["temp"]), " pH 7", " units mol/kgw"]
    for e in ELS:
        L.append(" %s %s" % (SOLNAME.get(e, e), cg.fmt(case["sol"][e])))
    if case["water"] != 1.0:
        L.append(" -water %s" % cg.fmt(case["water"]))
    return "\n".join(L)


def punch_block(case):
    els = ELS if case["kind"] == "cf" else sorted(case["els"])
    names = ["Ra", "Rb"] if case["kind"] == "cf" and case["family"] == "chain" else (["Ra"] if case["kind"] == "cf" else [case["rate"]])
    heads = ["tt", "kt", "w"] + ["n_" + e for e in els]
    items = ["TOTAL_TIME", "KIN_TIME", 'TOT("water")'] + ['TOT("%s")*TOT("water")' % e for e in els]
    for i, n in enumerate(names):
        heads += ["m%d" % i, "d%d" % i]
        items += ['KIN("%s")' % n, 'KIN_DELTA("%s")' % n]
    return ("SELECTED_OUTPUT 1\n -reset false\n -state true\n -step true\n -time true\n -solution true\n -high_precision true\n"
            "USER_PUNCH 1\n -headings %s\n -start\n 10 PUNCH %s\n -end" % (" ".join(heads), ", ".join(items)))


def render(case, w, nsat=None):
    T = case["T"]
    host = w["host"]
    parts = [cg.KNOBS_TIGHT]
    if case["kind"] == "cf":
        parts.append(rates_text(case))
    parts.append("PRINT\n -reset false\n -selected_output true")
    parts.append(punch_block(case))
    if host == "batch":
        parts.append(solution_block(case, "1"))
        parts.append(kinetics_block(case, w))
        parts.append("INCREMENTAL_REACTIONS %s" % ("true" if w["incr"] else "false"))
        parts.append("END")
    else:
        n = w["part"]["n"]
        dt = T / n
        nc = w["cells"] if host == "transport_multi" else 1
        parts.append(solution_block(case, "0-%d" % (nc + 1)))
        parts.append("END")
        parts.append(kinetics_block(case, w, "1-%d" % nc if nc > 1 else "1"))
        parts.append("INCREMENTAL_REACTIONS true")
        if host == "transport_multi":
            parts.append("TRANSPORT\n -cells %d\n -shifts %d\n -time_step %s\n -initial_time 0\n -flow_direction %s\n -boundary_conditions %s\n"
                         " -lengths 1\n -dispersivities 0\n -diffusion_coefficient 0\n -correct_disp false\n -stagnant 0\n -multi_d false\n"
                         " -implicit false\n -thermal_diffusion 1 0\n -punch_cells 1-%d\n -punch_frequency 1\n -print_cells 1\n -print_frequency 1000\n"
                         " -warnings false" % (nc, n, cg.fmt(dt), w["flow"], w["bc"], nc))
        elif host == "advection":
            parts.append("ADVECTION\n -cells 1\n -shifts %d\n -time_step %s\n -initial_time 0\n -punch_cells 1\n -punch_frequency 1\n"
                         " -print_cells 1\n -print_frequency 1000\n -warnings false" % (n, cg.fmt(dt)))
        else:
            const = host == "transport_const"
            D = (w["mixx"] / (4.0 * dt)) if const else 0.0
            bc = "constant constant" if const else "flux flux"
            parts.append("TRANSPORT\n -cells 1\n -shifts %d\n -time_step %s\n -initial_time 0\n -flow_direction %s\n -boundary_conditions %s\n"
                         " -lengths 1\n -dispersivities 0\n -diffusion_coefficient %s\n -correct_disp false\n -stagnant 0\n -multi_d false\n"
                         " -implicit false\n -thermal_diffusion 1 0\n -punch_cells 1\n -punch_frequency 1\n -print_cells 1\n -print_frequency 1000\n"
                         " -warnings false" % (n, cg.fmt(dt), w["flow"], bc, cg.fmt(D)))
        parts.append("END")
    text = "\n".join(parts) + "\n"
    if nsat is not None:
        text = text.replace("NSAT", cg.fmt(nsat))
    return text


# ------------------------------------------------------------------------------- reference model
def exact(case, t, n0=None):
    """-> list of exact amounts (one per kinetic reactant) at time t"""
    p, fam, m0 = case["p"], case["family"], case["m0"]
    if fam == "zero":
        return [max(0.0, m0 - p["k"] * t)]
    if fam == "first":
        return [m0 * math.exp(-p["k"] * t)]
    if fam == "approach_m":
        return [p["minf"] + (m0 - p["minf"]) * math.exp(-p["k"] * t)]
    if fam == "approach_c":
        c = formula_els(case["formula"])[p["el"]]
        # n(t) = nsat + (n0-nsat) exp(-c k t);  m = m0 - (n-n0)/c
        return [m0 - p["dn"] * (-math.expm1(-c * p["k"] * t)) / c]
    k1, k2, b0 = p["k1"], p["k2"], p["b0"]
    a = m0 * math.exp(-k1 * t)
    d = (k2 - k1) * t
    # (exp(-k1 t) - exp(-k2 t)) / (k2 - k1) = t * exp(-k1 t) * (1 - exp(-d)) / d
    g = t * math.exp(-k1 * t) * ((-math.expm1(-d) / d) if abs(d) > 1e-12 else 1.0)
    return [a, b0 * math.exp(-k2 * t) + m0 * k1 * g]


def run_way(case, w, nsat=None, cell=1, all_cells=False):
    """-> (rows, initial) rows: dict per punched reaction row of `cell`; raises Discard on engine errors"""
    I = lib.fresh("phreeqc.dat")
    try:
        rc = I.run_string(render(case, w, nsat))
        if rc != 0 or I.errors().strip():
            e = I.errors()
            if "maximum calls" in e or "Bad RK steps" in e:
                raise Discard("integrator_limit")
            first = (e.strip().split("\n") or [""])[0].replace("ERROR:", "").strip()
            raise Discard("run_error:" + "".join(ch for ch in first[:48] if not ch.isdigit()))
        T = I.table()
    finally:
        I.close()
    rows = T.dicts()
    if w["host"] == "batch":
        init = [r for r in rows if r["state"] == "i_soln"]
        reac = [r for r in rows if r["state"] == "react"]
    else:
        init = [r for r in rows if r["state"] == "i_soln" and r["soln"] == 0]
        st_ = "advect" if w["host"] == "advection" else "transp"
        reac = [r for r in rows if r["state"] == st_ and r["soln"] == cell and r["step"] >= 1]
    if len(init) != 1:
        raise Violation("rows", "expected one initial-solution row, got %d (%s)" % (len(init), w["host"]))
    if all_cells:
        return [(c, [r for r in rows if r["state"] == "transp" and r["soln"] == c and r["step"] >= 1])
                for c in range(1, w["cells"] + 1)], init[0]
    return reac, init[0]


def run_tracks(case, w, nsat=None):
    """-> ([(label suffix, rows of one cell)], initial row): one track per cell of the column"""
    if w["host"] == "transport_multi":
        tr, init = run_way(case, w, nsat, all_cells=True)
        return [("/cell%d" % c, rows) for c, rows in tr], init
    reac, init = run_way(case, w, nsat)
    return [("", reac)], init


def close(a, b, rel, floor=0.0):
    return abs(a - b) <= rel * max(abs(a), abs(b)) + floor


def integ_label(g):
    return ("cvode%d" % g["order"]) if g["type"] == "cvode" else "rk%d" % g["rk"]


def way_label(w):
    g = w["integ"]
    host = w["host"] + ("%d%s%s" % (w["cells"], w["flow"][0], w["bc"][0]) if w["host"] == "transport_multi" else "")
    lab = "%s/%s/%s/%s" % (host, w["part"]["type"], "incr" if w["incr"] else "cum", integ_label(g))
    if g["type"] == "cvode":
        lab += "/steps%d" % g["steps"]
    return lab


def static_class(w, tol, scale):
    """accuracy class of a way as far as it follows from its construction:
    'rk' | 'cvodeA' (default order, -cvode_steps >= CVODE_MIN_STEPS, tolerance not below CVODE_MIN_REL_TOL of the amounts; chained integrations
    still to be counted) | 'K2_order' | 'K2_restart_small_steps' | 'K2_tight_tol'"""
    g = w["integ"]
    if g["type"] == "rk":
        return "rk"
    if g["order"] <= 4:
        return "K2_order"
    if g["steps"] < CVODE_MIN_STEPS:
        return "K2_restart_small_steps"
    if tol < CVODE_MIN_REL_TOL * scale:
        return "K2_tight_tol"
    return "cvodeA"


def chained(w, reac, T):
    """number of integrations chained one after the other up to the last row"""
    ncum = len(cum_times(w["part"], T))
    if w["host"] == "batch":
        return ncum if w["incr"] else 1
    if w["host"] == "transport_multi":
        return 2 * ncum       # by construction: no sub-mixes; the inflow cell integrates two half steps per shift
    dt = T / ncum
    n = 0
    for r in reac:            # inside transport every sub-mix is an integration of KIN_TIME seconds
        kt = r["kt"]
        n += max(1, int(round(dt / kt))) if kt and kt > 0 else 1
    return n


def bucket(x):
    for b in (0.001, 0.01, 0.1, 0.3, 0.6, 1.0):
        if x <= b:
            return "<=%g" % b
    return ">1"


def check_case(case, ctx, probe=None):
    """probe: development aid - a dict that receives the accuracy ratios instead of accuracy violations being raised"""
    T, tol, m0 = case["T"], case["tol"], case["m0"]
    cf = case["kind"] == "cf"
    fam = case["family"] if cf else case["rate"]
    names = 2 if cf and fam == "chain" else 1
    m_init = [m0, case["p"]["b0"]] if names == 2 else [m0]
    if cf:
        fels = [formula_els(case["formula"])] + ([formula_els(case["formula2"])] if names == 2 else [])
        els = ELS
    else:
        fels = [case["els"]]
        els = sorted(case["els"])
    reads_solution = (not cf) or fam == "approach_c"
    force_all = bool(case.get("assert_all"))       # only in the registered known-finding replays
    scale = case_scale(case)
    base_bound = 100.0 * tol + 1e-11 * scale
    finals = []
    classes = ["family=%s" % fam, "tol=%g" % tol]
    nsat = None
    moved = 0.0
    worst, worst_what = 0.0, ""
    nacc = 0
    for w in case["ways"]:
        if cf and fam == "approach_c" and nsat is None:
            # saturation amount = initial dissolved amount (exact echo of the input: conc * water) + dn
            nsat = case["sol"][case["p"]["el"]] * case["water"] + case["p"]["dn"]
        wlab = way_label(w)
        try:
            tracks, init = run_tracks(case, w, nsat)
        except Discard as d:
            ctx.event("way_discarded:%s" % d.why)
            if probe is not None:
                probe.setdefault("discards", []).append((d.why, wlab))
            continue
        cum = cum_times(w["part"], T)
        for suffix, reac in tracks:
            if len(reac) != len(cum):
                raise Violation("rows", "%s%s: %d reaction rows for %d steps" % (wlab, suffix, len(reac), len(cum)))
        # ---- is this way inside a known-finding trigger class?  (by construction; chained integrations counted)
        klass = static_class(w, tol, scale)
        nch = chained(w, tracks[0][1], T)
        if (klass == "cvodeA" and nch > ACC_MAX_CHAINED) or (klass == "rk" and nch > RK_MAX_CHAINED):
            klass = "K2_chained"
        acc = force_all or klass in ("rk", "cvodeA")
        if not acc:
            ctx.event("excluded_known:" + klass)
        for suffix, reac in tracks:
            lab = wlab + suffix
            # ---- solute-balance residual reported by this run (only used for laws that read the solution)
            closure = 0.0
            if reads_solution and w["host"] == "batch":
                for r in reac:
                    for e in els:
                        ce = sum(fels[j].get(e, 0.0) for j in range(names))
                        if ce > 0:
                            res = (r["n_" + e] - init["n_" + e]) + sum((r["m%d" % j] - m_init[j]) * fels[j].get(e, 0.0) for j in range(names))
                            closure = max(closure, abs(res) / ce)
            bound = base_bound + 4.0 * closure
            prev = list(m_init)
            for i, (r, t) in enumerate(zip(reac, cum)):
                ms = [r["m%d" % j] for j in range(names)]
                ds = [r["d%d" % j] for j in range(names)]
                # ---- amounts never negative
                for j, m in enumerate(ms):
                    if not (m >= 0.0):
                        raise Violation("negative_amount", "%s step %d: reactant %d amount %r" % (lab, i + 1, j, m))
                # ---- time bookkeeping
                tprev = cum[i - 1] if i else 0.0
                if w["host"] == "batch":
                    want_kt = (t - tprev) if w["incr"] else t
                else:
                    want_kt = None        # inside transport the last sub-step's length is an internal of the scheme
                # (the row of the inflow cell of a multi-cell column is written between its two half steps and carries the time of
                #  the first half, t - dt/2, in -time and TOTAL_TIME although its amounts are those at t: not asserted there)
                inflow = w["host"] == "transport_multi" and suffix == "/cell%d" % (1 if w["flow"] == "forward" else w["cells"])
                if inflow:
                    pass
                elif not close(r["tt"], t, 1e-11):
                    raise Violation("total_time", "%s step %d: TOTAL_TIME %r, step list gives %r" % (lab, i + 1, r["tt"], t))
                if not inflow and not close(r["time"], t, 1e-11):
                    raise Violation("time_column", "%s step %d: -time %r, step list gives %r" % (lab, i + 1, r["time"], t))
                if want_kt is not None and not close(r["kt"], want_kt, 1e-11, 1e-11 * T):
                    raise Violation("kin_time", "%s step %d: KIN_TIME %r, step list gives %r" % (lab, i + 1, r["kt"], want_kt))
                if w["host"] == "advection" and not close(r["kt"], T / len(cum), 1e-11):
                    raise Violation("kin_time", "%s shift %d: KIN_TIME %r, time step %r" % (lab, i + 1, r["kt"], T / len(cum)))
                # ---- closed form
                if cf and acc:
                    ex = exact(case, t)
                    for j in range(names):
                        d = abs(ms[j] - ex[j])
                        if d / bound > worst:
                            worst, worst_what = d / bound, "exact " + lab
                        if probe is not None:
                            probe.setdefault("exact", []).append((d / tol, (d - 4.0 * closure) / tol, lab, nch))
                        elif d > bound:
                            raise Violation("exact", "%s step %d (t=%r): reactant %d amount %r, exact %r, |diff| %.3e > 100*tol (+floor) = %.3e"
                                            % (lab, i + 1, t, j, ms[j], ex[j], d, bound))
                    if fam == "zero" and case["p"]["k"] * t >= m0 * 1.02 + 200 * tol and ms[0] != 0.0:
                        raise Violation("exhausted", "%s step %d: exhausted at t*=%r but amount at t=%r is %r, not 0"
                                        % (lab, i + 1, m0 / case["p"]["k"], t, ms[0]))
                # ---- KIN_DELTA: change over this step (incremental, transport, advection) or since the start (cumulative)
                base = prev if w["incr"] else m_init
                for j in range(names):
                    if abs(ds[j] - (ms[j] - base[j])) > 1e-12 * scale:
                        raise Violation("kin_delta", "%s step %d: KIN_DELTA %r but amount went %r -> %r" % (lab, i + 1, ds[j], base[j], ms[j]))
                # ---- solute balance: what left the reactants arrived in the solution (C02 tolerance, rel 1e-6 of the inventory)
                if w["host"] == "batch":
                    dm = [ms[j] - m_init[j] for j in range(names)]
                elif w["host"] in ("advection", "transport_flux"):
                    dm = [ms[j] - prev[j] for j in range(names)]        # the cell was refilled with solution 0 in this shift
                else:
                    dm = None                                            # constant boundaries exchange solutes
                if dm is not None:
                    for e in els:
                        before, after = init["n_" + e], r["n_" + e]
                        gain = -sum(dm[j] * fels[j].get(e, 0.0) for j in range(names))
                        inv = max(abs(before), abs(after)) + sum(abs(m_init[j]) * abs(fels[j].get(e, 0.0)) for j in range(names))
                        if abs((after - before) - gain) > 1e-6 * inv + 1e-14:
                            raise Violation("solute_balance", "%s step %d: %s in solution %r -> %r (change %.10e) but reactants released %.10e"
                                            % (lab, i + 1, e, before, after, after - before, gain))
                prev = ms
            fin = [reac[-1]["m%d" % j] for j in range(names)]
            moved = max(moved, max(abs(fin[j] - m_init[j]) for j in range(names)))
            if acc:
                finals.append((lab, fin, bound))
        nacc += 1 if acc else 0
        classes.append("host=" + w["host"])
        classes.append("integ=" + (integ_label(w["integ"]) if klass in ("rk", "cvodeA") else "cvode:" + klass))
        classes.append("part=%s/%s" % (w["part"]["type"], "incr" if w["incr"] else "cum"))
        if klass == "cvodeA":
            st_ = w["integ"]["steps"]
            classes.append("cvode_steps=" + ("40-100" if st_ <= 100 else "200-500" if st_ <= 500 else ">=5000"))
        if w["integ"]["type"] == "rk" and w["integ"]["step_divide"] is not None:
            classes.append("step_divide" + (">1" if w["integ"]["step_divide"] > 1 else "<1"))
        classes.append("chained=%s" % ("1" if nch == 1 else "2" if nch == 2 else "3-20" if nch <= 20 else ">20"))
    if not finals:
        raise Discard("no_accuracy_bearing_way_completed")
    # ---- any two ways of reaching T agree within 100*tol
    for a in range(len(finals)):
        for b_ in range(a + 1, len(finals)):
            bnd = max(finals[a][2], finals[b_][2])
            for j in range(names):
                d = abs(finals[a][1][j] - finals[b_][1][j])
                if d / bnd > worst:
                    worst, worst_what = d / bnd, "path %s vs %s" % (finals[a][0], finals[b_][0])
                if probe is not None:
                    probe.setdefault("path", []).append((d / tol, (d - (bnd - base_bound)) / tol, finals[a][0] + " vs " + finals[b_][0], 0))
                elif d > bnd:
                    raise Violation("path_independence", "amount of reactant %d at T=%r: %r via %s, %r via %s; |diff| %.3e > 100*tol (+floor) = %.3e"
                                    % (j, T, finals[a][1][j], finals[a][0], finals[b_][1][j], finals[b_][0], d, bnd))
    pure_exhaustion = cf and fam == "zero" and case["p"]["k"] * min(cum_times(w["part"], T)[0] for w in case["ways"]) >= m0
    bmax = max(f[2] for f in finals)
    nt = nacc >= 2 and moved > 1e-3 * m0 and bmax < 0.1 * moved and not pure_exhaustion
    if cf and fam == "zero" and case["p"]["k"] * T > m0:
        classes.append("exhaustion_inside_interval")
    classes.append("accuracy_ways=%d" % nacc)
    classes.append("worst_diff/bound" + bucket(worst))
    if worst > 0.4 and probe is None and hasattr(ctx, "extra") and len(ctx.extra.setdefault("near_bound", [])) < 25:
        ctx.extra["near_bound"].append("%.2f %s tol=%g scale=%.3g %s" % (worst, fam, tol, scale, worst_what))
    if bmax > 2 * base_bound:
        classes.append("closure_dominates_bound")
    return {"nontrivial": nt, "classes": classes}


def run(ctx):
    ncf, nlib = BUDGET[ctx.tier]
    ctx.hyp(cf_case(), lambda c: check_case(c, ctx), ncf, "closed_form")
    ctx.hyp(lib_case(), lambda c: check_case(c, ctx), nlib, "library")


def debug_margins(kind="cf", n=200, seed_=1):
    """development helper: distribution of |diff|/tol per integrator class on the current tree (nothing is asserted for accuracy)"""
    from hypothesis import given, settings, seed, HealthCheck
    import collections

    class C:
        def event(self, *a):
            pass
    stat = collections.defaultdict(list)
    disc = collections.Counter()

    @settings(max_examples=n, database=None, deadline=None, suppress_health_check=list(HealthCheck))
    @seed(seed_)
    @given(cf_case() if kind == "cf" else lib_case())
    def t(case):
        pr = {}
        try:
            check_case(case, C(), pr)
        except Discard as d:
            disc[d.why] += 1
            return
        for k in ("exact", "path"):
            for raw, net, lab, nch in pr.get(k, []):
                key = "%s %s %s" % (k, case.get("family", case.get("rate")), lab.split("/")[-2] if "steps" in lab else lab.split("/")[-1]) if k == "exact" else "%s %s" % (k, case.get("family", case.get("rate")))
                stat[key].append((net, raw, case["tol"], lab))
    t()
    for k in sorted(stat):
        v = sorted(stat[k], reverse=True)
        print("%-40s n=%5d  max net %.3g (raw %.3g, tol %g, %s)  p99 %.3g" % (k, len(v), v[0][0], v[0][1], v[0][2], v[0][3], v[len(v) // 100][0]))
    print("discards", dict(disc))
