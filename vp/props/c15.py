"""C15 - results are invariant under physically irrelevant changes of the input (metamorphic pairs)."""
import math, os
from hypothesis import strategies as st
from .. import lib, dbparse, formula as F
from .. import c15gen as G
from ..core import Violation, Discard

ID = "C15"
LEVEL = "exploration"
RULE = ("Hypothesis-generated chemical systems (1-3 initial solutions; optional EQUILIBRIUM_PHASES / REACTION / EXCHANGE / SURFACE / "
        "GAS_PHASE / KINETICS, MIX, SAVE + second simulation) written down twice ('views') that differ by one transformation family: "
        "U units (mol/mmol/umol/g/mg/ug per kgw, eq/meq/ueq for Alkalinity, per-constituent units, as, gfw; factors from the database "
        "text), U1 documented spellings of one unit (bitwise), W water mass and all extensive amounts x f (1e-3..1e3), N renumbering, "
        "P order of blocks / constituents, R duplicated identical blocks, M mixture split / reordered / with identical copies, "
        "S SOLUTION_SPREAD row vs SOLUTION block; both texts are run on fresh instances with KNOBS -convergence_tolerance 1e-13 and "
        "all USER_PUNCH doubles are compared row by row. Non-trivial = both runs complete, the two texts differ, the system has >= 3 "
        "constituents (for U: >= 2 different units in the pair; for U1: >= 1 respelled unit); distinct by SHA-256 of the case")
ASSUMPTIONS = ["gram formula weights and formula weights are read from the database text by vp.dbparse (independent of the engine)",
               "unit spellings are the ones of the PHREEQC manual (abbreviation table, SOLUTION units paragraph, ppt/ppm/ppb, case-insensitivity)",
               "rows whose pe is not fixed by the input (batch reactions without an O2(g) buffer, initial exchange/surface/gas calculations) are "
               "compared without pe and without species coupled through e- (DESIGN 4, rule 7)",
               "solver tolerance added to the property's 1e-8 (DESIGN 4, rule 2): a mass balance is accepted with a residual sqrt(n x 1e-25 mol) "
               "(model.cpp residuals(), MIN_TOTAL) -> relative uncertainty 5 sqrt(n_sys 1e-25)/n of an element total, 15 sqrt(S 1e-25/kgw)/(2.3 "
               "max([H+],[OH-])) of a computed pH; the accepted pH / surface-potential difference of a row enters the tolerance of the "
               "values that depend on it (12 dpH for logs, 28 dpH relative); values of elements whose amount in solution is below that "
               "resolution are not compared",
               "extensive amounts are compared relative to max(|value|, 1e-3 x reactant inventory, 1e-6 mol/kgw x water); molalities to "
               "max(|value|, 1e-12); surface charge density to max(|value|, F x sites / area)",
               "kinetic rate laws are constants (k x M0): other laws agree only to the integrator's -tol (C12), not to 1e-8",
               "pressures of Peng-Robinson gas phases (GAS_P of fixed-volume phases, PR_P, PR_PHI, GAS_VM) are lagged iterates and are "
               "compared through SI(gas) and GAS() moles instead"]
TECHNIQUE = "property-based testing (Hypothesis): metamorphic two-run relation, exact unit factors from the database text"
LEVEL_TEXT = ("Exploration: thousands of generated system/transformation pairs per run; every punched result (pH, pe, mu, totals, "
              "molalities, activities, SI, reactant amounts, gas pressures, surface charge/potential) must agree to 1e-8 relative "
              "(1e-8 absolute for log quantities, bitwise for respelled units, extensive results scaled by the water factor).")
FLOORS = {"quick": 800, "thorough": 8000}
SHARDS = {"quick": 8, "thorough": 16}
BUDGET = {"quick": 4000, "thorough": 60000, "replay": 1}

REL = 1e-8


def prepare(tier):
    lib.build("rel", ["libiphreeqc_rel.so"])


# ------------------------------------------------------------------------------------------ observables
def _formula_elements(text):
    try:
        return set(F.elements(text))
    except Exception:
        return set()


def stages(m):
    """every reaction stage of a model: simulation 1, the optional second simulation, the cells of a cell model"""
    out = [m]
    if m.get("st2"):
        out.append(m["st2"])
    for c in m.get("cells") or []:
        out.append({"eq": {"phases": c["phases"]}})
    return out


def stage_for(m, sim, label):
    if m.get("cells"):
        for c in m["cells"]:
            if c["n"] == label:
                return {"eq": {"phases": c["phases"]}}
        return {}
    return m if sim == 1 else (m.get("st2") or {})


def system_elements(m):
    """(elements as written in the solutions, base elements of everything in the system)"""
    db = dbparse.load(m["db"])
    written, base = [], set()
    for s in m["sols"]:
        for c in s["comps"]:
            if c["el"] not in written:
                written.append(c["el"])
            base.add("C" if c["el"] == "Alkalinity" else c["el"].split("(")[0])
            if c["opt"] and c["opt"] != "charge":
                ph = db.phase(c["opt"].split()[0])
                if ph:
                    base |= set(ph.elements)
        if s["pH_opt"] and s["pH_opt"] != "charge":
            ph = db.phase(s["pH_opt"].split()[0])
            if ph:
                base |= set(ph.elements)
    for stg in stages(m):
        for p in (stg.get("eq") or {}).get("phases", []):
            ph = db.phase(p["name"])
            if ph:
                base |= set(ph.elements)
        for i in (stg.get("rx") or {}).get("items", []):
            base |= _formula_elements(i["f"])
        for i in (stg.get("ex") or {}).get("items", []):
            base |= _formula_elements(i["f"])
        for r in (stg.get("kin") or {}).get("rates", []):
            base |= _formula_elements(r["formula"])
        for c in (stg.get("gas") or {}).get("comps", []):
            ph = db.phase(c["g"])
            if ph:
                base |= set(ph.elements)
    base -= {"H", "O", "e", "X", "Hfo_w", "Hfo_s"}
    return written, sorted(base)


def closure(db, written, base, allow_e):
    """species reachable from the master species of the system's elements by database reactions
    (without reactions that involve e- unless allow_e)"""
    allowed = {"H+", "H2O"}
    if allow_e:
        allowed.add("e-")
    for el in list(written) + list(base):
        mm = db.master.get("C(4)" if el == "Alkalinity" else el)
        if mm is not None:
            allowed.add(mm.species)
    changed = True
    while changed:
        changed = False
        for s in db.species.values():
            if s.name in allowed or s.is_identity:
                continue
            names = [n for _, n in s.lhs] + [n for _, n in s.rhs if n != s.name]
            if not allow_e and "e-" in names:
                continue
            if all(n in allowed for n in names):
                allowed.add(s.name)
                changed = True
    return allowed


def reactant_inventory(m):
    tot = 0.0
    for stg in stages(m):
        for p in (stg.get("eq") or {}).get("phases", []):
            tot += p["moles"]
        r = stg.get("rx")
        if r:
            amt = sum(r["steps"]["amounts"]) if "amounts" in r["steps"] else r["steps"]["total"]
            tot += amt * sum(i["coef"] for i in r["items"])
        for i in (stg.get("ex") or {}).get("items", []):
            tot += i["moles"]
        for i in (stg.get("su") or {}).get("sites", []):
            tot += i["moles"]
        for r in (stg.get("kin") or {}).get("rates", []):
            tot += max(r["m"], r["m0"])
        g = stg.get("gas")
        if g:
            tot += max(g["pressure"], sum(c["p"] for c in g["comps"])) * g["volume"] / 24.0
    for s in m["sols"]:
        tot += sum(c["c"] for c in s["comps"]) * s["water"]
    return tot


def stage_buffered(stg):
    return any(p["name"] == "O2(g)" for p in (stg.get("eq") or {}).get("phases", []))


NON_SOLUTE = {"H", "O", "e", "X", "Hfo_w", "Hfo_s"}


def _els(d):
    return tuple(sorted(set(d) - NON_SOLUTE))


SI_STOICH = {}   # (database, 'SI("phase")') -> 2 x sum of |stoichiometric coefficients| of the phase reaction (see close)


def observables(m):
    """list of (expr, kind, poised_only, elements); kinds: pH, log, rel, ext, abs, cb, alk, psi, sigma;
    elements = base elements whose mass balance the value depends on (their solver tolerance enters the comparison)"""
    db = dbparse.load(m["db"])
    written, base = system_elements(m)
    always = closure(db, written, base, False)
    poised = closure(db, written, base, True)
    obs = [('-LA("H+")', "pH", False, ()), ('-LA("e-")', "log", True, ()), ("MU", "rel", False, ()),
           ('LA("H2O")', "log", False, ()), ("TC", "abs", False, ()), ("RHO", "rel", False, ()), ("SC", "rel", False, ()),
           ("ALK", "alk", False, ()), ('TOT("water")', "ext", False, ()), ("SOLN_VOL", "ext", False, ()),
           ("CHARGE_BALANCE", "cb", False, ()),
           ('MOL("H+")', "rel", False, ()), ('LA("H+")', "log", False, ()),
           ('MOL("OH-")', "rel", False, ()), ('LA("OH-")', "log", False, ())]
    for el in written:
        if el != "Alkalinity":
            obs.append(('TOT("%s")' % el, "rel", False, (el.split("(")[0],)))
    for el in base:
        if el not in written:
            obs.append(('TOT("%s")' % el, "rel", False, (el,)))
        obs.append(('TOTMOLE("%s")' % el, "ext", False, (el,)))
        obs.append(('SYS("%s")' % el, "ext", False, (el,)))
    nsp = 0
    for s in db.species.values():
        if s.name in poised and s.name not in ("H2O", "e-", "H+", "OH-") and nsp < 60:
            po = s.name not in always
            obs.append(('MOL("%s")' % s.name, "rel", po, _els(s.elements)))
            obs.append(('LA("%s")' % s.name, "log", po, _els(s.elements)))
            nsp += 1
    nph = 0
    for p in db.phases.values():
        names = [n for _, n in p.reaction]
        if nph < 40 and all(n in poised for n in names):
            obs.append(('SI("%s")' % p.name, "log", not all(n in always for n in names), _els(p.elements)))
            SI_STOICH[(m["db"], 'SI("%s")' % p.name)] = 2.0 * sum(abs(c) for c, n in p.reaction if n != "H2O")
            nph += 1
    for stg in stages(m):
        for p in (stg.get("eq") or {}).get("phases", []):
            ph = db.phase(p["name"])
            e = ('EQUI("%s")' % p["name"], "ext", False, _els(ph.elements) if ph else ())
            if e not in obs:
                obs.append(e)
        for r in (stg.get("kin") or {}).get("rates", []):
            obs.append(('KIN("%s")' % r["name"], "ext", False, _els(_formula_elements(r["formula"]))))
        g = stg.get("gas")
        if g:
            # the pressure of a fixed-volume Peng-Robinson gas phase is reported from a damped molar-volume iterate
            # (model.cpp calc_gas_pressures: V_m = (V_m_prev + V_m) / 2) whose lag is not part of the convergence test:
            # observed scatter 6e-8 relative while the moles agree to 1e-12 -> only the moles are results there
            for c in g["comps"]:
                ph = db.phase(c["g"])
                obs.append(('GAS("%s")' % c["g"], "ext", False, _els(ph.elements) if ph else ()))
            # PR_P / PR_PHI / GAS_VM are the values of the last Peng-Robinson evaluation, which uses the mole fractions
            # of the previous iteration (observed: 4e-8 scatter of PR_P of a minor component while GAS() agrees to
            # 1e-11): the partial pressures are compared through SI(gas) = log fugacity and the moles instead
            if g["fixed"] == "pressure":
                obs.append(("GAS_P", "rel", False, ()))
        if stg.get("ex"):
            for s in db.exchange_species.values():
                names = [n for _, n in s.lhs]
                if s.name != "X-" and all(n in always or n == "X-" for n in names):
                    obs.append(('MOL("%s")' % s.name, "rel", False, _els(s.elements)))
                    obs.append(('LA("%s")' % s.name, "log", False, _els(s.elements)))
        if stg.get("su"):
            k = 0
            for s in db.surface_species.values():
                names = [n for _, n in s.lhs]
                if all(n in always or n.startswith("Hfo_") for n in names) and k < 40:
                    obs.append(('MOL("%s")' % s.name, "rel", False, _els(s.elements)))
                    k += 1
            obs.append(('EDL("psi", "Hfo")', "psi", False, ()))
            obs.append(('EDL("sigma", "Hfo")', "sigma", False, ()))
            obs.append(('EDL("charge", "Hfo")', "cb", False, ()))
    return obs


# ------------------------------------------------------------------------------------------ running
def run_text(text, dbname):
    I = lib.fresh(dbname)
    try:
        rc = I.run_string(text)
        if rc != 0 or I.errors().strip():
            return None, (I.errors().strip().split("\n") or [""])[0][:120]
        T = I.table(1)
        return T, None
    finally:
        I.close()


def rows_of(T, nobs, by_label=False):
    """-> dict key -> (soln label, [values]) ; key = (sim, state, soln) for initial solutions, (sim, state, step) otherwise"""
    out = {}
    if T.rows < 2:
        return out
    h = T.cells[0]
    if h[:4] != ["sim", "state", "soln", "step"] or T.cols != 4 + nobs:
        raise Violation("table", "unexpected selected-output layout: %r" % (h[:8],))
    for r in T.cells[1:]:
        sim, state, soln, step = r[0], r[1], r[2], r[3]
        if by_label and state != "i_soln":
            key = (2, state, soln, step)       # cell models: one reaction per cell, whatever simulation it runs in
        else:
            key = (sim, state, soln, -99) if state == "i_soln" else (sim, state, None, step)
        if key in out:
            raise Violation("rows", "two rows with the same label %r" % (key,))
        out[key] = (soln, r[4:])
    return out


def close(a, b, kind, ext, ctxv):
    """-> (ok, deviation/tolerance ratio).
    ctxv: mu, kgw, ext_floor, kappa (solver-tolerance factor for pH itself), nu (accepted |delta pH| of this row)"""
    if a is None or b is None or isinstance(a, str) or isinstance(b, str):
        return (a == b), 0.0
    a = float(a)
    b = float(b)
    if a != a or b != b:
        return (a != a and b != b), 0.0
    if kind in ("ext", "cb"):
        b = b / ext
    if a == b:
        return True, 0.0
    nu = ctxv["nu"]
    eps = ctxv.get("eps_el", 0.0)        # solver tolerance of the mass balances of the elements the value depends on
    if kind == "pH":
        tol = ctxv["tol_pH"]
    elif kind == "log":
        # sensitivity of a log activity / saturation index to the accepted pH difference nu: 12 covers species and the
        # phases with up to 12 H+ in their reaction; a phase with a larger reaction (Tremolite: 14 H+, 2 Ca, 5 Mg, 8 H4SiO4 -
        # false alarm at 1.06 x tolerance, quick seed 8) carries 2 x the sum of its stoichiometric coefficients
        tol = REL + max(12.0, ctxv.get("h_stoich", 0.0)) * nu + eps / 2.302585
        tol += ctxv.get("surf_rel", 0.0) / 2.302585
        # log activity of a species below the molality floor: the same absolute resolution as for its molality
        tol *= ctxv.get("log_floor", 1.0)
    elif kind == "abs":
        tol = REL
    else:
        rel = REL + 28.0 * nu + eps + ctxv.get("nu_psi", 0.0)     # d ln m = ln(10) n dpH - z F dpsi / RT
        rel += ctxv.get("surf_rel", 0.0)
        if kind == "rel":
            tol = rel * max(abs(a), abs(b), 1e-12)
        elif kind == "alk":
            # alkalinity is a signed sum over species (OH- minus H+ plus ...): its terms set the scale
            tol = rel * max(abs(a), abs(b), 1e-3 * ctxv["mu"], ctxv["hoh"])
        elif kind == "psi":
            tol = rel * max(abs(a), abs(b), 0.0257) + 0.0257 * ctxv.get("u_psi", 0.0)
        elif kind == "sigma":
            # net surface charge density = small difference of the charged site populations near the point of zero charge
            tol = rel * max(abs(a), abs(b), ctxv["site_sigma"]) + ctxv.get("dsigma", 0.0)
        elif kind == "ext":
            tol = rel * max(abs(a), abs(b), ctxv["ext_floor"])
        elif kind == "cb":
            tol = rel * max(abs(a), abs(b), ctxv["ext_floor"], 1e-3 * ctxv["mu"] * ctxv["kgw"]) + ctxv["cb_noise"]
            tol += ctxv.get("dq", 0.0)
        else:
            raise ValueError(kind)
    d = abs(a - b)
    return d <= tol, d / tol


# ------------------------------------------------------------------------------------------ views
def make_views(case):
    """-> (specA, viewA, specB, viewB, info) ; info: ext factor, row maps, class labels"""
    fam, m, xf = case["fam"], case["model"], case["xf"]
    specA = case["ua"]
    specB = specA
    vA, vB = {}, {}
    info = {"ext": 1.0, "solmap": {}, "bitwise": False}
    if fam == "U":
        specB = xf["ub"]
    elif fam == "U1":
        sp, cs = xf["spell"], xf["case"]

        def spell(k, j, unit):
            alts = G.spellings(unit)
            i = (k * 5 + j + 1) % len(sp)
            return G.recase(alts[sp[i] % len(alts)], cs[i])
        vB["spell"] = spell
        if xf.get("density"):
            vA["density"] = vB["density"] = xf["density"]
        info["bitwise"] = True
    elif fam == "W":
        vB["f"] = xf["f"]
        info["ext"] = xf["f"]
    elif fam == "N":
        vB["num"] = {k: {int(o): int(n) for o, n in pairs} for k, pairs in xf["num"].items()}
        info["solmap"] = vB["num"]["solution"]
        info["mixmap"] = vB["num"].get("mix", {})
    elif fam == "P":
        vB["bkeys"] = xf["bkeys"]
        vB["ikeys"] = xf["ikeys"]
    elif fam == "R":
        vB["dups"] = xf["dups"]
    elif fam == "M":
        vB["mixB"] = {"parts": xf["parts"], "copies": xf["copies"], "keys": xf["keys"]}
        has_reactant = any(m.get(k) for k in ("eq", "rx", "ex", "su", "gas", "kin"))
        if not has_reactant:
            vA["force_mix"] = True
        # manual (MIX): "each solution is multiplied by its mixing fraction ... the mass of water is effectively multiplied
        # by the same fraction ... the charge imbalance ... is multiplied by the mixing fraction": a single source with
        # fraction s is the solution defined with s times the water, used directly
        src = m["src"]
        st2 = m.get("st2")
        # ... and likewise for every source of a multi-source MIX independently: "-water W, fraction f" contributes the same
        # water, moles and heat as "-water f W, fraction 1" (sources at different temperatures: the mixture temperature
        # must not depend on where the factor is written)
        used_again = {n for n, _ in st2["src"]} if st2 else set()
        # (rows of an initial exchange / surface / gas calculation mix solution and reactant amounts: not rescaled)
        used_again |= {(m.get(k) or {}).get("equil") for k in ("ex", "su", "gas")}
        if xf.get("scaleA"):
            sc = {n: fr for n, fr in src if fr != 1.0 and n not in used_again}
            if sc:
                vA["sol_scale"] = sc
                info["sol_scale"] = sc
        # optionally combined with a renumbering and / or a permutation of view B
        if xf.get("num"):
            vB["num"] = {k: {int(o): int(n) for o, n in pairs} for k, pairs in xf["num"].items()}
            info["solmap"] = vB["num"]["solution"]
            info["mixmap"] = vB["num"].get("mix", {})
        if xf.get("bkeys"):
            vB["bkeys"] = xf["bkeys"]
            vB["ikeys"] = xf["ikeys"]
    elif fam == "S":
        vB["spread"] = True
        vB["sopt"] = xf.get("sopt")
    else:
        raise ValueError(fam)
    return specA, vA, specB, vB, info


def units_used(m, spec):
    out = set()
    for k, s in enumerate(m["sols"]):
        for j, c in enumerate(s["comps"]):
            p = (spec[k]["per"][j] if spec[k].get("per") else None) or {}
            out.add(p.get("u", spec[k]["def"]))
    return out


def n_constituents(m):
    n = sum(len(s["comps"]) for s in m["sols"])
    for stg in stages(m):
        n += len((stg.get("eq") or {}).get("phases", [])) + len((stg.get("rx") or {}).get("items", []))
        n += len((stg.get("ex") or {}).get("items", [])) + len((stg.get("su") or {}).get("sites", []))
        n += len((stg.get("gas") or {}).get("comps", [])) + len((stg.get("kin") or {}).get("rates", []))
    return n


def texts(case):
    m = case["model"]
    obs = observables(m)
    exprs = [o[0] for o in obs]
    specA, vA, specB, vB, info = make_views(case)
    tA = G.render(m, specA, vA, exprs)
    tB = G.render(m, specB, vB, exprs)
    return tA, tB, obs, info, (specA, specB)


# ------------------------------------------------------------------------------------------ oracle
def check_case(case, ctx):
    m, fam = case["model"], case["fam"]
    os.chdir(ctx.scratch_dir())      # a non-converging step makes the engine write error.inp into the cwd
    tA, tB, obs, info, (specA, specB) = texts(case)
    TA, errA = run_text(tA, m["db"])
    TB, errB = run_text(tB, m["db"])
    if errA is not None or errB is not None:
        if (errA is None) != (errB is None):
            ctx.event("one_sided_error")
        raise Discard("run_error")
    nobs = len(obs)
    RA, RB = rows_of(TA, nobs, bool(m.get("cells"))), rows_of(TB, nobs, bool(m.get("cells")))
    solmap = info["solmap"]
    ext = info["ext"]
    inventory = reactant_inventory(m)
    # map A's keys into B's numbering
    mapped = {}
    for key, v in RA.items():
        if key[1] == "i_soln" or m.get("cells"):
            key2 = (key[0], key[1], solmap.get(key[2], key[2]), key[3])
        else:
            key2 = key
        mapped[key2] = (key, v)
    extraB = [k for k in RB if k not in mapped]
    # identical copies of a solution (family M) have rows of their own in B: they must equal the original's row
    copies = {}
    if fam == "M":
        nextn = 900
        for i, (n, fr) in enumerate(m["src"]):
            for j, _ in enumerate(case["xf"]["parts"][i]):
                if case["xf"]["copies"][i][j]:
                    copies[nextn] = n
                    nextn += 1
    pairs = []
    for k in extraB:
        if k[1] == "i_soln" and k[2] in copies:
            orig = (k[0], "i_soln", copies[k[2]], -99)
            if orig in RA:
                pairs.append((orig, RA[orig], k, RB[k]))
                continue
        raise Violation("rows", "view B has a row %r that view A does not have (A: %r)" % (k, sorted(RA, key=str)))
    for key2, (key, v) in mapped.items():
        if key2 not in RB:
            raise Violation("rows", "view A has a row %r (B label %r) that view B does not have (B: %r)" % (key, key2, sorted(RB, key=str)))
        pairs.append((key, v, key2, RB[key2]))
    st2 = m.get("st2")
    worst = worst_ph = 0.0
    worst_expr = ""
    skipped_noise = la_floor = 0
    dbm = dbparse.load(m["db"])
    surf_z = {'MOL("%s")' % sp.name: sp.charge for sp in dbm.surface_species.values()} if (m.get("su")) else {}
    zmax = max([abs(z) for z in surf_z.values()] + [1.0])
    site_sigma = 0.0
    for stg in (m, st2 or {}):
        su = stg.get("su")
        if su:
            site_sigma = 96485.0 * sum(i["moles"] for i in su["sites"]) / (su["sites"][0]["area"] * su["sites"][0]["grams"])
    nreact = 0
    pairs.sort(key=lambda q: (q[0][0], q[0][1] != "i_soln", str(q[0])))
    carry, carry_next, cur_sim = {}, {}, None
    for keyA, (solA, va), keyB, (solB, vb) in pairs:
        sim, state = keyA[0], keyA[1]
        if sim != cur_sim:
            # solutions saved by an earlier simulation carry that simulation's mass-balance uncertainty with them
            cur_sim = sim
            for e, v in carry_next.items():
                carry[e] = max(carry.get(e, 0.0), v)
        if state == "i_soln":
            poised = True      # pe is an input
        else:
            # batch reactions and the initial exchange / surface / gas-phase calculations solve pe from the H and O balance
            nreact += state == "react"
            poised = state == "react" and stage_buffered(stage_for(m, sim, keyA[2]))
        # row labels under renumbering (reaction rows show the solution or the mix number that was used)
        if fam == "N" and state != "i_soln" and not m.get("cells"):
            stg = m if sim == 1 else st2
            direct = len(stg["src"]) == 1 and stg["src"][0][1] == 1.0
            if state == "react":
                old = stg["src"][0][0] if direct else stg["mixn"]
                want = (info["solmap"] if direct else info["mixmap"]).get(old, old)
                if solA == old and solB != want:
                    raise Violation("labels", "row %r: %s label %r in A, %r in B, renumbering says %r" % (
                        keyA, "solution" if direct else "mix", solA, solB, want))
        imu = [i for i, o in enumerate(obs) if o[0] == "MU"][0]
        ih = [i for i, o in enumerate(obs) if o[0] == 'MOL("H+")'][0]
        ioh = [i for i, o in enumerate(obs) if o[0] == 'MOL("OH-")'][0]
        iw = [i for i, o in enumerate(obs) if o[0] == 'TOT("water")'][0]
        kgw = va[iw] if isinstance(va[iw], float) else 1.0
        mu = va[imu] if isinstance(va[imu], float) else 0.0
        row_ext = 1.0 if keyB[2] in copies else ext
        if state == "i_soln" and keyA[2] in info.get("sol_scale", {}):
            row_ext = 1.0 / info["sol_scale"][keyA[2]]
        kgwb = vb[iw] if isinstance(vb[iw], float) else kgw
        ctxv = {"mu": mu, "kgw": kgw, "ext_floor": 1e-3 * inventory + 1e-6 * kgw, "tol_pH": REL, "nu": 0.0,
                "site_sigma": site_sigma}
        # Solver tolerance (model.cpp residuals()): a mass balance counts as converged when its residual is below
        # max(convergence_tolerance x n, sqrt(n x MIN_TOTAL)) with n the moles of the element and MIN_TOTAL = 1e-25 mol,
        # i.e. a relative uncertainty sqrt(1e-25 / n) of every element total (1e-11 for 1 mmol, 3e-9 for 1e-8 mol), and
        # - through the charge balance - an uncertainty of about sum |z| sqrt(n_i 1e-25) eq in [H+] where pH is an unknown.
        kmin = max(min(kgw, kgwb), 1e-300)
        eps_of = {}
        for i, o in enumerate(obs):
            if o[0].startswith("TOTMOLE("):
                # obs[i + 1] is SYS(element): the mass balance covers solution + exchanger + surface (SYS also counts
                # phases: conservative); its accepted residual 5 sqrt(n_sys 1e-25) is an absolute uncertainty of the
                # moles in solution
                e = 0.0
                ns = [abs(v[i]) if isinstance(v[i], float) else 0.0 for v in (va, vb)]
                ns[1] = ns[1] / row_ext if row_ext else ns[1]
                if max(ns) == 0.0:
                    pass                         # the element is absent from both solutions: zeros compare as they are
                elif min(ns) < 1e-30 and max(ns) > 1e-14 * max(kgw, 1e-30):
                    pass                         # present in one view only: a real disagreement, compared strictly
                else:
                    for v in (va, vb):
                        n = abs(v[i]) if isinstance(v[i], float) else 0.0
                        nsys = max(abs(v[i + 1]) if isinstance(v[i + 1], float) else 0.0, n)
                        e = max(e, 1.0 if n < 1e-30 else min(1.0, 5.0 * math.sqrt(nsys * 1e-25) / n))
                        if not poised and o[3][0] in ("C", "S") and state != "i_soln":
                            # un-poised rows: the electron balance is the difference of total H and total O, which the
                            # solver accepts with a residual of convergence_tolerance x (H + 2 O) = 1e-13 x 170 mol/kgw
                            # (model.cpp residuals(), MH / MH2O); that many electrons (x3 margin) can reduce the same
                            # amount of C(4) / S(6) (observed: 4e-12 mol/kgw of S(6) reduced in one view only)
                            w = abs(v[iw]) if isinstance(v[iw], float) else 1.0
                            e = max(e, 1.0 if n < 1e-30 else min(1.0, 5e-11 * w / n))
                e = max(e, carry.get(o[3][0], 0.0))
                eps_of[o[3][0]] = e
                if state != "i_soln":
                    carry_next[o[3][0]] = max(carry_next.get(o[3][0], 0.0), e)
        # Surface (model.cpp residuals()):
        #  * SURFACE_CB with an explicit diffuse layer (-donnan / -diffuse_layer): residual = sum of surface + diffuse-layer
        #    charge in eq, accepted below convergence_tolerance ABSOLUTE (1e-13 eq, whatever the size of the surface);
        #    without diffuse-layer composition: residual in C/m2, accepted below 1e-13 C/m2 -> 1e-13 A g / F eq;
        #  * SURFACE (site balance): accepted below min(ineq_tol = 1e-15 mol, 1 % of the sites), else 1e-13 x sites.
        #  dq eq of unbalanced charge moves F psi / RT by u = dq / sum z_i^2 n_i (charged surface species) and each surface
        #  species by |z_i| u; it moves at most dq mol of any element between surface and solution, and dq eq of protons.
        ctxv["surf_rel"] = ctxv["u_psi"] = ctxv["dsigma"] = ctxv["dq"] = 0.0
        su = m.get("su") if sim == 1 else None
        if su and state in ("i_surf", "react") and su["edl"] != "-no_edl":
            fB = info["ext"] if fam == "W" else 1.0
            u = dqmax = dsig = rsite = 0.0
            for v, fv, kg in ((va, 1.0, kgw), (vb, fB, kgwb)):
                area_g = su["sites"][0]["area"] * su["sites"][0]["grams"] * fv
                dq = 1e-13 if su["edl"] in ("-donnan", "-diffuse_layer") else 1e-13 * area_g / 96485.0
                z2n = sum(surf_z[o[0]] ** 2 * abs(v[i]) for i, o in enumerate(obs)
                          if o[0] in surf_z and isinstance(v[i], float)) * max(kg, 0.0)
                # the two views may err in opposite directions: the bounds add
                u += dq / z2n if z2n > 0 else 1.0
                dqmax += dq / fv
                dsig += dq * 96485.0 / area_g
                for st_ in su["sites"]:
                    nsite = st_["moles"] * fv
                    rsite += max(min(1e-15, 0.01 * nsite) / nsite, 1e-13) / len(su["sites"])
                if state == "react":
                    for e_ in list(eps_of):
                        i_ = [j for j, o in enumerate(obs) if o[0] == 'TOTMOLE("%s")' % e_]
                        n_ = abs(v[i_[0]]) if i_ and isinstance(v[i_[0]], float) else 0.0
                        if n_ > 0:
                            eps_of[e_] = min(1.0, eps_of[e_] + dq / n_)
                            carry_next[e_] = max(carry_next.get(e_, 0.0), eps_of[e_])
            ctxv["u_psi"], ctxv["dq"], ctxv["dsigma"] = u, dqmax, dsig
            ctxv["surf_u"], ctxv["surf_site"] = u, rsite
            surf_dq_per_kgw = max(1e-13 / max(kgw, 1e-300), 1e-13 / max(kgwb, 1e-300)) if su["edl"] in ("-donnan", "-diffuse_layer") else dqmax / max(kmin, 1e-300)
        else:
            surf_dq_per_kgw = 0.0
            ctxv["surf_u"] = ctxv["surf_site"] = 0.0
        ctxv["hoh"] = max(abs(va[ih]) if isinstance(va[ih], float) else 0.0, abs(va[ioh]) if isinstance(va[ioh], float) else 0.0)
        icb = [i for i, o in enumerate(obs) if o[0] == "CHARGE_BALANCE"][0]
        S = 2.0 * mu + (abs(va[icb]) / kgw if isinstance(va[icb], float) and kgw > 0 else 0.0)
        # accepted mass-balance residuals of the ions, summed into the charge balance (eq, in the scale of view A)
        ctxv["cb_noise"] = 15.0 * math.sqrt(S * 1e-25) * max(math.sqrt(kgw), math.sqrt(max(kgwb, 0.0)) / row_ext)
        ph_free = state != "i_soln" or any(s["pH_opt"] for s in m["sols"] if s["n"] == keyA[2])
        if ph_free and isinstance(va[ih], float) and isinstance(va[ioh], float):
            bcap = max(abs(va[ih]), abs(va[ioh]), 1e-30)          # buffer capacity >= 2.3 max([H+],[OH-])
            noise = 15.0 * math.sqrt(S * 1e-25 / kmin)              # eq/kgw, margin 5 on 3 sqrt(S kgw 1e-25) / kgw
            if state == "react":
                noise += surf_dq_per_kgw                                # protons released / taken up with the unbalanced charge
            ctxv["tol_pH"] = REL + noise / (2.302585 * bcap)
            # the accepted pH difference of this row is a nuisance parameter of every pH-dependent result
            if isinstance(va[0], float) and isinstance(vb[0], float):
                ctxv["nu"] = min(abs(va[0] - vb[0]), ctxv["tol_pH"])
        # KNOWN FINDING (replays/C15/known/exhausted-phase-element-not-conserved.json): when an equilibrium phase with a
        # finite amount is used up during a batch reaction, the engine occasionally (6 of 200 water factors in the recorded
        # system) ends with up to 1e-8 mol more or less of that phase's elements in the system than went in (SYS("Si")
        # 7.852054e-4 instead of 7.852e-4), which none of its convergence criteria allows.  Signature: a phase exhausted in
        # this row, SYS of one of ITS elements differs between the views by more than 10x the mass-balance criterion (but
        # < 1e-4 relative) while the other elements are conserved to that criterion.  Such pairs are excluded and counted (a "strict" case, as in the known replay, is not excluded).
        if state == "react" and not case.get("strict") and not info["bitwise"]:
            stg_ = stage_for(m, sim, keyA[2])
            used_up = set()
            for p_ in (stg_.get("eq") or {}).get("phases", []):
                j_ = [j for j, o in enumerate(obs) if o[0] == 'EQUI("%s")' % p_["name"]]
                if p_["moles"] > 0 and j_ and any(isinstance(v[j_[0]], float) and v[j_[0]] <= 0.0 for v in (va, vb)):
                    ph_ = dbm.phase(p_["name"])
                    used_up |= set(_els(ph_.elements)) if ph_ else set()
            if used_up:
                dev_in, dev_out = 0.0, 0.0
                for j, o in enumerate(obs):
                    if o[0].startswith("SYS(") and isinstance(va[j], float) and isinstance(vb[j], float):
                        a_, b_ = va[j], vb[j] / row_ext
                        d_ = abs(a_ - b_) / max(abs(a_), abs(b_), 1e-300)
                        # in units of what the mass-balance criterion allows for that total (5 sqrt(1e-25 / n), >= 1e-13)
                        crit_ = max(5.0 * math.sqrt(1e-25 / max(min(abs(a_), abs(b_)), 1e-300)), 1e-13)
                        if o[3][0] in used_up:
                            if d_ < 1e-4:
                                dev_in = max(dev_in, d_ / crit_)
                            else:
                                dev_out = 1e99          # a gross difference is never the known finding
                        else:
                            dev_out = max(dev_out, d_ / crit_)
                if dev_in > 10.0 and dev_out <= 10.0:
                    ctx.event("excl:known_finding_exhausted_phase_element_not_conserved")
                    return {"nontrivial": False, "classes": ["excl:known_finding_exhausted_phase_element_not_conserved"],
                            "worst": [0.0, ""]}
        # a gas phase that has dissolved completely has no composition: its pressures are not results
        gas_n = sum(abs(va[i]) for i, o in enumerate(obs) if o[0].startswith("GAS(") and isinstance(va[i], float))
        gas_gone = gas_n <= 1e-9 * max(kgw, 1e-30)
        ipsi = [i for i, o in enumerate(obs) if o[1] == "psi"]
        ctxv["nu_psi"] = 0.0
        if ipsi and isinstance(va[ipsi[0]], float) and isinstance(vb[ipsi[0]], float) and state != "i_soln":
            # the accepted difference of the surface potential is a nuisance parameter of the surface speciation
            dpsi = abs(va[ipsi[0]] - vb[ipsi[0]])
            tolpsi = (REL + 28.0 * ctxv["nu"]) * max(abs(va[ipsi[0]]), abs(vb[ipsi[0]]), 0.0257) + 0.0257 * ctxv["u_psi"]
            ctxv["nu_psi"] = 4.0 * 38.92 * min(dpsi, tolpsi)
        for i, (expr, kind, poised_only, oels) in enumerate(obs):
            if info["bitwise"]:
                # the same arithmetic is repeated: every value, poised or not, must be identical
                a, b = va[i], vb[i]
                if a != b and not (a != a and b != b):
                    raise Violation("bitwise", "row %r %s: %r (A) != %r (B) although only the spelling of units differs" % (keyA, expr, a, b))
                continue
            if poised_only and not poised:
                continue
            ctxv["eps_el"] = 3.0 * sum(eps_of.get(e, 0.0) for e in oels)
            ctxv["surf_rel"] = (zmax * ctxv["surf_u"] + ctxv["surf_site"]) if expr in surf_z else 0.0
            ctxv["log_floor"] = 1.0
            ctxv["h_stoich"] = SI_STOICH.get((m["db"], expr), 0.0) if expr.startswith('SI("') else 0.0
            if expr.startswith('LA("') and i > 0 and obs[i - 1][0] == 'MOL("' + expr[4:]:
                mm = min(abs(va[i - 1]), abs(vb[i - 1])) if isinstance(va[i - 1], float) and isinstance(vb[i - 1], float) else 0.0
                if mm < 1e-12:
                    ctxv["log_floor"] = 1e-12 / max(mm, 1e-300)
                    la_floor += 1
            if ctxv["eps_el"] + ctxv["surf_rel"] >= 0.1:
                # the amount of this element in solution is below what the solver's mass-balance criterion resolves
                skipped_noise += 1
                continue
            if gas_gone and expr.startswith(("PR_P", "PR_PHI", "GAS_P", "GAS_VM")):
                continue
            if state == "i_gas" and not expr.startswith("GAS"):
                # the result of an initial gas-phase calculation is the gas composition; the solution values punched with
                # that row are those of an internal, re-balanced copy of the solution (e.g. Cl 0.02 -> 0.0238) that is
                # converged to ~1e-9 only
                continue
            if expr == "SC" and abs(va[icb]) / max(kgw, 1e-300) > 0.2 * mu:
                # the conductivity model averages charge and mobility over "the cations" and "the anions"; in a water
                # without counter-ions one of the two sets consists of trace species at the solver's resolution
                continue
            a, b = va[i], vb[i]
            ok, ratio = close(a, b, kind, row_ext, ctxv)
            if not ok:
                raise Violation("invariance:" + kind,
                                "family %s row %r %s: A=%r B=%r%s (deviation %.3g x tolerance)" % (
                                    fam, keyA, expr, a, b, (" /%r" % row_ext) if kind in ("ext", "cb") and row_ext != 1.0 else "", ratio))
            if ratio > worst:
                worst, worst_expr = ratio, "%s %s" % (state, expr)
            if kind == "pH":
                worst_ph = max(worst_ph, ratio)
    # ---- classification
    classes = ["%s:%s" % (fam, m["kind"]), "db=" + m["db"]]
    nrc = sum(1 for k in ("eq", "rx", "ex", "su", "gas", "kin") if m.get(k))
    classes.append("reactants=%d" % nrc)
    classes.append("solutions=%d" % len(m["sols"]))
    if m.get("cells"):
        classes.append("cells:%s" % m["mode"])
        classes.append("cells=%d" % len(m["cells"]))
    if st2:
        classes.append("second_simulation")
    if len(m["src"]) > 1:
        classes.append("mix_of_%d" % len(m["src"]))
    if nreact:
        classes.append("reaction_rows")
    if any(stage_buffered(s) for s in (m, st2 or {})):
        classes.append("O2_buffered")
    if worst == 0.0:
        classes.append("dev=0")
    else:
        classes.append("dev<=1e%d_tol" % max(-8, min(0, int(math.ceil(math.log10(worst))))))
    if skipped_noise:
        classes.append("values_below_solver_resolution_skipped")
        ctx.event("n_values_below_solver_resolution_skipped", skipped_noise)
    if la_floor:
        ctx.event("n_log_activities_below_molality_floor", la_floor)
    uu = units_used(m, specA) | units_used(m, specB)
    differ = tA != tB
    nt = differ and n_constituents(m) >= 3
    if fam == "U":
        nt = nt and len(uu) >= 2
        for u in sorted(units_used(m, specB)):
            ctx.event("U:unit=" + u)
        if any((p or {}).get("as") for s in specB for p in (s.get("per") or [])):
            classes.append("U:as")
        if any((p or {}).get("gfw") for s in specB for p in (s.get("per") or [])):
            classes.append("U:gfw")
        if any(c["el"] == "Alkalinity" for s in m["sols"] for c in s["comps"]):
            classes.append("U:alkalinity")
    if fam == "W":
        classes.append("W:f=1e%d..1e%d" % (math.floor(math.log10(case["xf"]["f"])), math.floor(math.log10(case["xf"]["f"])) + 1))
    if fam == "M":
        if info.get("sol_scale"):
            classes.append("M:fraction_vs_scaled_solution")
            if len(m["src"]) > 1:
                classes.append("M:multi_source_fraction_vs_scaled_solution")
                srcs = [s0 for s0 in m["sols"] if s0["n"] in {n for n, _ in m["src"]}]
                if len({s0["temp"] for s0 in srcs}) > 1 and len({s0["water"] for s0 in srcs}) > 1:
                    classes.append("M:multi_source_unequal_water_and_temp")
        if case["xf"].get("num"):
            classes.append("M:+renumbered")
        if case["xf"].get("bkeys"):
            classes.append("M:+permuted")
        if any(any(c) for c in case["xf"]["copies"]):
            classes.append("M:identical_copy")
        if any(len(p) > 1 for p in case["xf"]["parts"]):
            classes.append("M:self_mix_split")
    if fam == "N":
        olds = sorted(info["solmap"])
        if [info["solmap"][o] for o in olds] != sorted(info["solmap"][o] for o in olds):
            classes.append("N:order_of_solutions_changes")
    if fam == "S" and any(len(g) > 1 for g in G.spread_groups(m, specB)):
        classes.append("S:several_rows_in_one_block")
    if fam == "S" and "\n -water " in tB:
        classes.append("S:block_level_water")
    if not differ:
        classes.append("identical_texts")
    return {"nontrivial": bool(nt), "classes": classes, "worst": [worst, worst_expr]}


# ------------------------------------------------------------------------------------------ driver
SHARE = {"U": 0.18, "U1": 0.1, "W": 0.2, "N": 0.1, "P": 0.11, "R": 0.06, "M": 0.17, "S": 0.08}


def run(ctx):
    n = BUDGET[ctx.tier] // ctx.nshards
    for fam in G.FAMILIES:
        k = max(1, int(n * SHARE[fam]))
        ctx.hyp(G.case(fam=fam), lambda c: check_case(c, ctx), k, "fam-" + fam)
