"""C03 - reactant assemblages end in a valid heterogeneous equilibrium state."""
import os, math
from hypothesis import strategies as st
from .. import lib, c03gen as G, rawparse as R
from ..core import Violation, Discard

ID = "C03"
LEVEL = "exploration"
RULE = ("Hypothesis-generated reaction cells (vp/c03gen.py): a solution (1-4 cations, 0-3 anions, Cl, optional Si / trace Fe, "
        "Al, Mn, Zn; 0-100 C; 0.1-10 kg water; phreeqc.dat, wateq4f.dat, pitzer.dat) reacted with any subset of "
        "EQUILIBRIUM_PHASES (1-6 minerals drawn from all phases of the database text whose elements the generator knows, "
        "targets 0 or -3..+1, amounts 0 / 1e-7..10 mol, dissolve_only / precipitate_only / -force_equality, optional gas "
        "below 1 atm and pH-stat phase with alternative formula), EXCHANGE (explicit incl. HX, -equilibrate, tied to a "
        "mineral or to a kinetic reactant), SURFACE (Hfo weak+strong sites; no_edl / DDL / -donnan / -diffuse_layer; "
        "defined, equilibrated, tied to a mineral or a kinetic reactant), SOLID_SOLUTIONS (ideal 2-4 components, binary "
        "Guggenheim), REACTION (1-3 reactants, 1-4 steps), REACTION_TEMPERATURE, KINETICS, incremental or cumulative steps, "
        "batch (USE/SAVE) or RUN_CELLS, optionally a second stage that re-reacts the saved assemblage. Every reaction step "
        "is one selected-output row (full doubles). Non-trivial = a mineral or solid-solution crossed present<->absent in "
        "some step, or >=3 minerals of the assemblage share an element other than H/O, or an exchanger / surface "
        "re-distributed >1e-9 mol of sites; distinct by SHA-256 of the case")
ASSUMPTIONS = [
    "SI(), EQUI(), S_S(), KIN(), MOL(), TOT(\"water\") read-outs are what the statement calls saturation index, moles and "
    "occupied sites (their relation to the database text is C01's subject)",
    "species lists per exchange / surface master come from an independent reading of the database text (vp/dbparse.py); the "
    "exchange master species X- is 'not included in the mole-balance equation for the exchanger' (manual) and is not counted",
    "dissolve_only / precipitate_only (RELEASE notes): the amount may not end above / below the amount at the start of the "
    "reaction step; within that limit the mineral reacts like any other (dissolve_only: present => SI >= target, some "
    "dissolved => SI <= target; precipitate_only: SI <= target, some precipitated => SI = target). Cells in which one reaction "
    "step is a sequence of equilibrations (KINETICS; for precipitate_only also -donnan / -diffuse_layer surfaces) are held to "
    "the one-sided part only (never supersaturated resp. never undersaturated while present, amount limit)",
    "-force_equality (RELEASE notes): 'the phase must reach its target SI or the calculation fails with an error'",
    "exchangers / surfaces tied to a mineral or kinetic reactant: sites = proportion x formula sites x current moles (manual, EXCHANGE)",
    "a mineral whose SI reads -99.99/-999.999 is not part of the system ('not in solution or other phases' warning): inert",
    "gases in EQUILIBRIUM_PHASES (fugacity: C19) and phases with an alternative formula without -force_equality (warning-level "
    "convergence rule) take part in the cell but their SI is not asserted",
    "a solid solution is called present when it holds > 1e-12 mol (the engine's own switch is 1e-15 mol); ideal activity is "
    "compared as |IAP/K - x| <= 1e-6 max(IAP/K, x) + 1e-12; site totals as |sum - sites| <= 1e-8 sites + 1e-11 mol "
    "(10 x convergence_tolerance, the engine's absolute test for vanished site populations)",
    "excluded, counted in classes (known findings, see replays/C03/known): site clauses of an exchanger / surface tied to a mineral "
    "after a second solver attempt; sites tied to a mineral that holds an element absent from the solution (by construction); a "
    "-force_equality mineral that ends off its target without the documented error. Not generated (undocumented corners): sites tied to a "
    "precipitate_only mineral, solid-solution components that are also pure phases of the assemblage, kinetic reactants with "
    "tied sites that are used up (rk_kinetics does not return)",
]
TECHNIQUE = "property-based testing (Hypothesis): generated reaction cells, end-state oracle from the documented semantics"
LEVEL_TEXT = ("Exploration: thousands of generated cells per run; every reaction step's end state is checked clause by clause "
              "(SI vs target and amount per mineral incl. restrictions, site totals per exchanger / surface site type from the "
              "database's own species list, solid-solution fractions and ideal activities).")
FLOORS = {"quick": 400, "thorough": 3000}
SHARDS = {"quick": 8, "thorough": 16}
BUDGET = {"quick": 320, "thorough": 3200, "replay": 1}
DBS = {"quick": ("phreeqc.dat", "phreeqc.dat", "phreeqc.dat", "wateq4f.dat", "pitzer.dat"),
       "thorough": ("phreeqc.dat", "phreeqc.dat", "wateq4f.dat", "pitzer.dat")}

SI_TOL = 1e-6          # property
SITE_RTOL = 1e-8       # property
SITE_ATOL = 1e-11      # 10 x convergence_tolerance (DESIGN 4.2): a site population that vanished with its mineral is tested by
                       # the engine against the *absolute* convergence tolerance (residuals(), EXCH / SURFACE branches)
SS_SUM_TOL = 1e-12     # property
SS_ACT_TOL = 1e-6      # property
SS_PRESENT = 1e-12
MOVED = 1e-9
NEG_FLOOR = 1e-13     # mol; see check_pp
STRICT_ZERO = [False]  # set per case from case["strict_zero"] (known replay of the tiny-negative-amount finding)
AMOUNT_SLACK = 1e-12   # relative: rounding of (amount - delta) against the stored start amount


def prepare(tier):
    lib.build("rel", ["libiphreeqc_rel.so"])


# ------------------------------------------------------------------------------------------------- oracle
def _num(v, what):
    if isinstance(v, bool) or not isinstance(v, (int, float)):
        raise Violation("readout", "%s is not a number: %r" % (what, v))
    v = float(v)
    if v != v or v in (float("inf"), float("-inf")):
        raise Violation("readout", "%s = %r" % (what, v))
    return v


def asserted_si(p):
    """does the statement's SI clause apply to this assemblage member?"""
    if p["name"].endswith("(g)"):
        return False
    if p["alt"]:
        return bool(p["fe"])
    return True


def pp_moles(row, i, p):
    """amount of mineral i after the step: built-in -equilibrium_phases column (EQUI() clamps negative amounts to 0)"""
    if p["name"] in row and row[p["name"]] is not None:
        return _num(row[p["name"]], "moles of " + p["name"])
    return _num(row["eq_%d" % i], "EQUI " + p["name"])


def check_pp(case, row, start, strict, strict_ppt, res, targets=None):
    """clauses for the minerals of the assemblage in one reaction step; start[i] = moles at the beginning of the step"""
    for i, p in enumerate(case["pp"]):
        tag = "%s (target %s, start %r mol%s%s)" % (p["name"], G.fmt(p["si"] if targets is None else targets[i]), start[i], ", " + p["opt"] if p["opt"] else "",
                                                     ", force_equality" if p["fe"] else "")
        m = pp_moles(row, i, p)
        si = _num(row["si_%d" % i], "SI " + p["name"])
        t = p["si"] if targets is None else targets[i]
        if -NEG_FLOOR <= m < 0.0 and not STRICT_ZERO[0]:
            # KNOWN FINDING (known_findings.json: absent-mineral-tiny-negative-amount): excluded by construction here and counted;
            # the known replay sets "strict_zero" and applies "absent (exactly 0 mol)" as stated.
            # rounding of (amount - last Newton step) against the optimizer's zero tolerance (KNOBS -tolerance, 1e-15):
            # seen on the unchanged tree: -3.6e-15 mol for a mineral that starts and ends absent.  Counted, treated as
            # absent (near-zero rule, DESIGN 4.3; floor 100 x the optimizer tolerance)
            res["tiny_negative_amount"] = True
            m = 0.0
        if m < 0.0:
            raise Violation("negative_moles", "%s: %r mol after the step" % (tag, m))
        if 0.0 < m < 1e-300:
            raise Violation("denormal_moles", "%s: %r mol after the step" % (tag, m))
        if start[i] > 0.0 and m == 0.0:
            res["exhausted"] = True
        if start[i] == 0.0 and m > 0.0:
            res["appeared"] = True
        if not asserted_si(p):
            continue
        if si <= -99.0 and (m == 0.0 or p["opt"] == "precipitate_only"):
            # "Element ... is contained in <phase> (which has 0.0 mass), but is not in solution or other phases": the phase
            # is not part of the equilibrium problem (SI read-out -99.99 / -999.999); absent and trivially not above target
            # (the start amount of a precipitate_only phase cannot react and does not bring its elements into the system)
            res["inert"] = True
            continue
        res["asserted"] += 1
        hi = si > t + SI_TOL          # supersaturated with respect to the target
        lo = si < t - SI_TOL          # undersaturated
        if p["fe"]:
            if hi or lo:
                # known finding `force-equality-not-enforced`: RELEASE documents "the phase must reach its target SI or the
                # calculation fails with an error", but the engine's exit test does not look at -force_equality: a phase that
                # is used up (below target) or is dissolve_only and may not precipitate (above target) ends off target without
                # an error.  The outcome cannot be excluded when the case is built; it is counted, not asserted, and the
                # ordinary clauses below still apply to the phase (the registered replay sets assert_known_findings).
                if case.get("assert_known_findings"):
                    raise Violation("force_equality", "%s: run completed without error but SI = %.12g, moles %r" % (tag, si, m))
                res["fe_off_target"] = True
            else:
                res["worst"] = max(res["worst"], abs(si - t))
        if p["alt"]:
            continue
        if p["opt"] == "dissolve_only":
            if m > start[i] * (1.0 + AMOUNT_SLACK):
                raise Violation("dissolve_only", "%s: amount grew to %r mol" % (tag, m))
            if m > 0.0 and lo:
                raise Violation("dissolve_only", "%s: %r mol present but undersaturated, SI = %.12g" % (tag, m, si))
            if strict and m < start[i] * (1.0 - AMOUNT_SLACK) and hi:
                raise Violation("dissolve_only", "%s: dissolved to %r mol but supersaturated, SI = %.12g" % (tag, m, si))
            if m >= start[i] and hi:
                res["dissolve_only_blocked"] = True
        elif p["opt"] == "precipitate_only":
            if m < start[i] * (1.0 - AMOUNT_SLACK):
                raise Violation("precipitate_only", "%s: amount fell to %r mol" % (tag, m))
            if hi:
                raise Violation("precipitate_only", "%s: supersaturated after the step, SI = %.12g, moles %r" % (tag, si, m))
            if strict_ppt and m > start[i] * (1.0 + AMOUNT_SLACK) and lo:
                raise Violation("precipitate_only", "%s: precipitated to %r mol but undersaturated, SI = %.12g" % (tag, m, si))
            if m <= start[i] and lo and m > 0:
                res["precipitate_only_blocked"] = True
        else:
            if m > 0.0:
                if hi or lo:
                    raise Violation("present_si", "%s: %r mol present but SI = %.12g" % (tag, m, si))
                res["worst"] = max(res["worst"], abs(si - t))
            elif hi:
                raise Violation("absent_si", "%s: absent (0 mol) but SI = %.12g above the target" % (tag, si))


def related_moles(case, row, d):
    if d["kind"] == "phase":
        name = d.get("phase") or d.get("rel")
        for i, p in enumerate(case["pp"]):
            if p["name"] == name:
                return pp_moles(row, i, p)
        raise Discard("related_phase_missing")
    return _num(row["kin"], "KIN")


def exch_capacity(case, row):
    d = case["exch"]
    if d["kind"] == "explicit":
        return sum(a * G.DB[case["db"]]["exch"][nm] for nm, a in d["species"])
    if d["kind"] == "equil":
        return d["X"]
    if d["kind"] == "equil_multi":
        return sum(a * (1 if fm == "X" else G.DB[case["db"]]["exch"][fm]) for fm, a in d["lines"])
    return d["per_mole"] * d["z"] * related_moles(case, row, d)


def check_exch(case, row, water, res, prev, start_pp=None):
    want = exch_capacity(case, row)
    d = case["exch"]
    if d["kind"] == "phase" and start_pp is not None and not case.get("assert_known_findings"):
        # known finding `tied-sites-not-resynchronised` (4th facet): during a calculation the engine does not recompute the
        # sites of an exchanger tied to a mineral from proportion x moles but accumulates the mineral's Newton steps; when
        # a step is clipped (reset() scales every delta except those of minerals) the two drift apart (seen: 4.5e-5
        # relative, no warning until the next simulation resets the sites).  The clause is therefore only asserted for
        # steps in which the mineral's amount did not change (counted otherwise).
        for i, p in enumerate(case["pp"]):
            if p["name"] == d["phase"] and pp_moles(row, i, p) != start_pp[i]:
                res["tied_exch_not_asserted"] = True
                return prev
    got = 0.0
    occ = {}
    for nm, z in G.exchange_species(case["db"]):
        v = _num(row[res["colname"][("ex", nm)]], "MOL " + nm) * water
        if v < 0.0:
            raise Violation("exchange_sites", "negative amount of %s: %r" % (nm, v))
        occ[nm] = v * z
        got += v * z
    if abs(got - want) > SITE_RTOL * abs(want) + SITE_ATOL:
        raise Violation("exchange_sites", "exchanger (%s): occupied equivalents %.15g, defined sites %.15g (difference %.3e); %r"
                        % (case["exch"]["kind"], got, want, got - want, {k: v for k, v in occ.items() if v > 0}))
    if want > 0:
        res["worst_site"] = max(res["worst_site"], abs(got - want) / want)
    if prev is not None and any(abs(occ[k] - prev.get(k, 0.0)) > MOVED for k in occ):
        res["sites_moved"] = True
    return occ


def surf_sites(case, row):
    d = case["surf"]
    if d["kind"] in ("plain", "equil"):
        out = {"Hfo_w": d["w"]}
        if d["s"] > 0:
            out["Hfo_s"] = d["s"]
        return out
    m = related_moles(case, row, d)
    out = {"Hfo_w": d["per_mole_w"] * m}
    if d["per_mole_s"] > 0:
        out["Hfo_s"] = d["per_mole_s"] * m
    return out


def check_surf(case, row, water, res, prev):
    want = surf_sites(case, row)
    got = {}
    occ = {}
    for nm, nu in G.surface_species(case["db"]):
        v = _num(row[res["colname"][("sf", nm)]], "MOL " + nm) * water
        if v < 0.0:
            raise Violation("surface_sites", "negative amount of %s: %r" % (nm, v))
        occ[nm] = v
        for site, k in nu.items():
            got[site] = got.get(site, 0.0) + k * v
    for site in sorted(set(got) | set(want)):
        w, g = want.get(site, 0.0), got.get(site, 0.0)
        if abs(g - w) > SITE_RTOL * abs(w) + SITE_ATOL:
            raise Violation("surface_sites", "surface (%s, %s) site type %s: occupied %.15g, defined %.15g (difference %.3e)"
                            % (case["surf"]["kind"], case["surf"]["edl"], site, g, w, g - w))
        if w > 0:
            res["worst_site"] = max(res["worst_site"], abs(g - w) / w)
    if prev is not None and any(abs(occ[k] - prev.get(k, 0.0)) > MOVED for k in occ):
        res["sites_moved"] = True
    return occ


def check_ss(case, row, start, res):
    """start[a][b] = moles of component b of solid solution a at the beginning of the step"""
    for a, s in enumerate(case["ss"]):
        n = []
        for b, (c, _) in enumerate(s["comps"]):
            v = _num(row["ssn_%d_%d" % (a, b)], "S_S " + c)
            if v < 0.0:
                raise Violation("ss_fraction", "solid solution %s: component %s has %r mol" % (s["name"], c, v))
            n.append(v)
        tot = sum(n)
        before = sum(start[a])
        if before > SS_PRESENT and tot <= SS_PRESENT:
            res["ss_exhausted"] = True
        if before <= SS_PRESENT and tot > SS_PRESENT:
            res["ss_appeared"] = True
        if tot <= SS_PRESENT:
            continue
        res["ss_present"] = True
        x = [v / tot for v in n]
        if abs(sum(x) - 1.0) > SS_SUM_TOL or any(v < 0 for v in x):
            raise Violation("ss_fraction", "solid solution %s: mole fractions %r" % (s["name"], x))
        if s["nonideal"]:
            continue
        for b, (c, _) in enumerate(s["comps"]):
            si = _num(row["ssi_%d_%d" % (a, b)], "SI " + c)
            if si <= -99.0:
                # component whose elements are not in the system: not part of the equilibrium problem
                if x[b] > 1e-9:
                    raise Violation("ss_ideal", "solid solution %s: component %s has mole fraction %r but SI %r" % (s["name"], c, x[b], si))
                continue
            act = 10.0 ** si
            if abs(act - x[b]) > SS_ACT_TOL * max(act, x[b]) + 1e-12:
                raise Violation("ss_ideal", "ideal solid solution %s (%.6g mol): component %s has activity IAP/K = %.12g but "
                                "mole fraction %.12g" % (s["name"], tot, c, act, x[b]))
            if x[b] > 1e-9:
                res["worst_ss"] = max(res["worst_ss"], abs(act - x[b]) / x[b])


def check_dump(case, D, n, row, res, skip=()):
    """the saved reactants (DUMP text) describe the same end state: site totals, solid-solution fractions, amounts >= 0"""
    if "pp" in case:
        ent = D.get(("EQUILIBRIUM_PHASES", n))
        if ent is None:
            raise Violation("dump", "EQUILIBRIUM_PHASES %d was saved but is not in the dump" % n)
        comps = ent.get("component") or {}
        for i, p in enumerate(case["pp"]):
            c = comps.get(p["name"])
            if c is None:
                raise Violation("dump", "mineral %s missing from the saved assemblage" % p["name"])
            m = float(c["moles"])
            if m < 0:
                raise Violation("negative_moles", "saved assemblage holds %r mol of %s" % (m, p["name"]))
            live = pp_moles(row, i, p)
            if abs(m - live) > 1e-12 * max(abs(live), 1e-30) + 1e-300 and not (m == 0 and live == 0):
                if abs(m - live) > 1e-9 * max(abs(live), 1e-20):
                    raise Violation("dump", "saved amount of %s %r differs from the amount of the last step %r" % (p["name"], m, live))
    if "exch" in case and "exch" not in skip and not (res.get("tied_exch_not_asserted") and case["exch"]["kind"] == "phase"):
        ent = D.get(("EXCHANGE", n))
        if ent is None:
            raise Violation("dump", "EXCHANGE %d was saved but is not in the dump" % n)
        tot = 0.0
        for cname, c in (ent.get("component") or {}).items():
            tot += float(R.nv(c.get("totals")).get("X", 0.0))
        want = exch_capacity(case, row)
        if abs(tot - want) > SITE_RTOL * abs(want) + SITE_ATOL:
            raise Violation("exchange_sites", "saved exchanger holds %.15g mol X, defined sites %.15g" % (tot, want))
    if "surf" in case and "surf" not in skip:
        ent = D.get(("SURFACE", n))
        if ent is None:
            raise Violation("dump", "SURFACE %d was saved but is not in the dump" % n)
        tot = {}
        for cname, c in (ent.get("component") or {}).items():
            for k, v in R.nv(c.get("totals")).items():
                if k.startswith("Hfo_"):
                    tot[k] = tot.get(k, 0.0) + float(v)
        want = surf_sites(case, row)
        for site in sorted(set(tot) | set(want)):
            w, g = want.get(site, 0.0), tot.get(site, 0.0)
            if abs(g - w) > SITE_RTOL * abs(w) + SITE_ATOL:
                raise Violation("surface_sites", "saved surface holds %.15g mol %s, defined sites %.15g" % (g, site, w))
    if "ss" in case:
        ent = D.get(("SOLID_SOLUTIONS", n))
        if ent is None:
            raise Violation("dump", "SOLID_SOLUTIONS %d was saved but is not in the dump" % n)
        sss = ent.get("solid_solution") or {}
        for s in case["ss"]:
            e = sss.get(s["name"])
            if e is None:
                raise Violation("dump", "solid solution %s missing from the saved assemblage" % s["name"])
            comps = e.get("component") or {}
            ms, xs = [], []
            for c, _ in s["comps"]:
                if c not in comps:
                    raise Violation("dump", "component %s missing from saved solid solution %s" % (c, s["name"]))
                ms.append(float(comps[c]["moles"]))
                xs.append(float(comps[c].get("fraction_x", 0.0)))
            if any(m < 0 for m in ms):
                raise Violation("ss_fraction", "saved solid solution %s holds negative moles %r" % (s["name"], ms))
            if sum(ms) > SS_PRESENT:
                if any(x < 0 for x in xs) or abs(sum(xs) - 1.0) > SS_SUM_TOL + 1e-13 * len(xs):
                    raise Violation("ss_fraction", "saved solid solution %s: stored mole fractions %r (sum %.15g)" % (s["name"], xs, sum(xs)))
                tot = sum(ms)
                # (binary non-ideal solid solutions inside their miscibility gap carry the composition of the gap boundary,
                #  not moles / total - only ideal ones are compared with the amounts)
                for m, x, (c, _) in zip(ms, xs, s["comps"]):
                    if not s["nonideal"] and abs(x - m / tot) > 1e-9:
                        raise Violation("ss_fraction", "saved solid solution %s: stored mole fraction of %s %.12g, moles give %.12g"
                                        % (s["name"], c, x, m / tot))


def competing(case):
    """>= 3 asserted minerals of the assemblage share an element other than H/O"""
    cnt = {}
    for p in case.get("pp", []):
        if p["alt"] or p["name"].endswith("(g)"):
            continue
        for e in G.phase_elements(case["db"], p["name"]):
            if e not in ("H", "O"):
                cnt[e] = cnt.get(e, 0) + 1
    return max(cnt.values() or [0]) >= 3


def check_case(case, ctx):
    db = case.get("db")
    if db not in G.DB:
        raise Discard("unknown_db")
    STRICT_ZERO[0] = bool(case.get("strict_zero"))
    os.chdir(ctx.scratch_dir())      # the engine writes error.inp into the current directory when a step does not converge
    I = lib.fresh(db)
    try:
        I.seti("SetDumpStringOn", 1)
        if "history" not in case:
            return check_cell(case, ctx, I)
        # several cells one after the other on the same instance: every cell is held to the same clauses
        nt, cl, done = False, set(), 0
        seen_nonideal = set()
        for j, cell in enumerate(case["history"]):
            try:
                r = check_cell(cell, ctx, I)
            except Discard:
                if j == 0:
                    raise
                ctx.event("history_cut_by_error")
                break
            done += 1
            nt = nt or r["nontrivial"]
            cl.update(c for c in r["classes"] if not c.startswith(("stages=", "minerals=", "mode=")))
            for s_ in cell.get("ss", []):
                names = {c for c, _ in s_["comps"]}
                if s_["nonideal"]:
                    seen_nonideal |= names
                elif names & seen_nonideal:
                    cl.add("hist_ideal_ss_after_nonideal_sharing_component")
        cl.add("history=%d" % done)
        if len({c.get("base", 0) for c in case["history"][:done]}) < done:
            cl.add("hist_numbers_redefined")
        return {"nontrivial": nt and done >= 2, "classes": sorted(cl)}
    finally:
        I.close()


def check_cell(case, ctx, I):
    db = case["db"]
    P = G.plan(case)
    cols = P["cols"]
    res = {"worst": 0.0, "worst_site": 0.0, "worst_ss": 0.0, "asserted": 0,
           "colname": {(k, key): h for h, k, key, _ in cols if k in ("ex", "sf")}}
    strict = "kin" not in case
    # precipitate_only: the engine sets the amount present at the start of *each equilibration* aside as inert; with an explicit
    # diffuse layer one reaction step is a sequence of equilibrations (surface_model), so what precipitated in an early one
    # cannot re-dissolve in a later one - only the one-sided reading (never supersaturated, never less than at the start) is held
    strict_ppt = strict and case.get("surf", {}).get("edl") not in ("donnan", "diffuse")
    tied = [k for k in ("exch", "surf") if case.get(k, {}).get("kind") in ("phase", "kin")]
    sites_off = False
    if True:
        if I.run_string(P["sim0"]) != 0:
            raise Discard("initial_solution_error")
        start_pp = [p["moles"] for p in case.get("pp", [])]
        start_ss = [[max(a, 0.0) for _, a in s["comps"]] for s in case.get("ss", [])]
        prev_ex = prev_sf = None
        done = 0
        retried = False
        targets = [p["si"] for p in case.get("pp", [])]
        for k, stg in enumerate(P["stages"]):
            if k == 1:
                # EQUILIBRIUM_PHASES_MODIFY between the stages: new targets / amounts of the saved assemblage
                for i, si, moles in case.get("stage2", {}).get("modify", []):
                    targets[i] = si
                    if moles is not None:
                        start_pp[i] = moles
            if I.run_string(stg["text"]) != 0:
                if k == 0:
                    raise Discard("run_error")
                ctx.event("stage2_cut_by_error")
                break
            if "Numerical method failed with this set" in (I.warnings() or ""):
                retried = True
                if tied and not sites_off and not case.get("assert_known_findings"):
                    # known finding `tied-sites-after-retry`: a second solver attempt restores minerals, solid solutions and
                    # kinetic reactants but not the exchanger / surface tied to them; the site clauses of such cells are not
                    # asserted from here on (counted)
                    sites_off = True
                    ctx.event("excluded_trigger:tied_sites_after_solver_retry")
            T = I.table()
            rows = [r for r in T.dicts() if r.get("state") == "react"]
            if len(rows) != stg["nsteps"]:
                # bookkeeping of the harness, not a clause of the property: never an alarm, visible in the evidence
                raise Discard("rows_%d_for_%d_steps" % (len(rows), stg["nsteps"]))
            sp, ss0 = list(start_pp), [list(x) for x in start_ss]
            row = None
            for j, row in enumerate(rows):
                water = _num(row["water"], "TOT(water)")
                if "pp" in case:
                    check_pp(case, row, sp, strict, strict_ppt, res, targets)
                if "exch" in case and not (sites_off and "exch" in tied):
                    prev_ex = check_exch(case, row, water, res, prev_ex, sp)
                if "surf" in case and not (sites_off and "surf" in tied):
                    prev_sf = check_surf(case, row, water, res, prev_sf)
                if "ss" in case:
                    check_ss(case, row, ss0, res)
                if case["incr"] or j == len(rows) - 1:
                    sp = [pp_moles(row, i, p) for i, p in enumerate(case.get("pp", []))]
                    ss0 = [[float(row["ssn_%d_%d" % (a, b)]) for b in range(len(s["comps"]))] for a, s in enumerate(case.get("ss", []))]
            start_pp, start_ss = sp, ss0
            D = R.parse(I.dump())
            check_dump(case, D, stg["saved"], row, res, [k for k in tied if sites_off])
            done += 1
    # ---- classes / non-trivial
    cl = ["db=" + db, "mode=" + case["mode"], "stages=%d" % done]
    npp = len([p for p in case.get("pp", []) if not p["alt"] and not p["name"].endswith("(g)")])
    cl.append("minerals=%d" % npp)
    if res.get("tied_exch_not_asserted"):
        cl.append("excluded_trigger:exchanger_tied_to_mineral_that_reacted_in_the_step")
    for key in ("tiny_negative_amount", "fe_off_target", "inert", "exhausted", "appeared", "ss_exhausted", "ss_appeared", "ss_present", "sites_moved", "dissolve_only_blocked",
                "precipitate_only_blocked"):
        if res.get(key):
            cl.append(key)
    for p in case.get("pp", []):
        if p["opt"]:
            cl.append("pp_" + p["opt"])
        if p["fe"]:
            cl.append("pp_force_equality")
        if p["alt"]:
            cl.append("pp_alt_formula")
        if p["name"].endswith("(g)"):
            cl.append("pp_gas_not_asserted")
        if p["moles"] == 0.0:
            cl.append("pp_zero_start")
        elif p["moles"] < 1e-9:
            cl.append("pp_trace_start<1e-9")
    if case.get("exch", {}).get("nex") or case.get("surf", {}).get("nex"):
        cl.append("excluded_trigger:sites_tied_to_mineral_with_element_absent_from_solution")
    if case.get("incr_forced"):
        cl.append("excluded_trigger:tied_sites_in_cumulative_multi_step_cells_run_incrementally")
    if "exch" in case:
        cl.append("exch_" + case["exch"]["kind"])
    if "surf" in case:
        cl.append("surf_" + case["surf"]["kind"])
        cl.append("surf_edl_" + case["surf"]["edl"])
    for s in case.get("ss", []):
        cl.append("ss_nonideal" if s["nonideal"] else "ss_ideal")
    if case.get("stage2", {}).get("modify") and done == 2:
        cl.append("pp_modified_between_stages")
    if "kin" in case:
        cl.append("kinetics")
    if "reaction" in case:
        cl.append("reaction")
    if "temps" in case or "temps" in case.get("stage2", {}):
        cl.append("reaction_temperature")
    if case["sol"]["temp"] != 25.0:
        cl.append("T<>25")
    if case["incr"]:
        cl.append("incremental")
    if retried:
        cl.append("solver_retry")
    comp = competing(case)
    if comp:
        cl.append("competing>=3")
    if res["worst"] > 1e-9:
        cl.append("si_residual>1e-9")
    if res["worst_site"] > 1e-11:
        cl.append("site_residual>1e-11")
    if res["worst_ss"] > 1e-9:
        cl.append("ss_residual>1e-9")
    ex = getattr(ctx, "extra", None)
    if isinstance(ex, dict):
        # per-shard maxima of the asserted residuals (core concatenates the one-element lists of the shards)
        for key, v in (("max_abs_si_minus_target_present", res["worst"]), ("max_rel_site_residual", res["worst_site"]),
                       ("max_rel_ideal_activity_residual", res["worst_ss"])):
            cur = ex.setdefault(key, [0.0])
            if v > cur[0]:
                cur[0] = v
    nt = bool(res.get("exhausted") or res.get("appeared") or res.get("ss_exhausted") or res.get("ss_appeared") or comp
              or res.get("sites_moved"))
    return {"nontrivial": nt, "classes": sorted(set(cl))}


def run(ctx):
    n = BUDGET[ctx.tier]
    ctx.hyp(G.case_strategy(DBS[ctx.tier]), lambda c: check_case(c, ctx), n - n // 4, "cells")
    ctx.hyp(G.history_strategy(DBS[ctx.tier]), lambda c: check_case(c, ctx), n // 8, "histories")


# ------------------------------------------------------------------------------------------- development helper
def debug(n=200, seed=1, dbs=("phreeqc.dat",), scratch="/verif/build/c03dev/scratch"):
    """print discard reasons, timings and class histogram of n generated cases"""
    from hypothesis import given, settings, seed as hseed, HealthCheck
    import collections, time, json
    cnt, cls, errs = collections.Counter(), collections.Counter(), collections.Counter()
    t0 = time.time()

    class Ctx:
        def event(self, name, n=1):
            cls[name] += n

        def scratch_dir(self):
            os.makedirs(scratch, exist_ok=True)
            return scratch

    @settings(max_examples=n, database=None, deadline=None, suppress_health_check=list(HealthCheck))
    @hseed(seed)
    @given(G.case_strategy(dbs))
    def t(case):
        try:
            r = check_case(case, Ctx())
            cnt["ok"] += 1
            if r["nontrivial"]:
                cnt["nt"] += 1
            for c in r["classes"]:
                cls[c] += 1
        except Discard as d:
            cnt["discard:" + d.why] += 1
            I = lib.fresh(case["db"])
            P = G.plan(case)
            for x in [P["sim0"]] + [s["text"] for s in P["stages"]]:
                if I.run_string(x) != 0:
                    e = [l for l in I.errors().split("\n") if l.strip()]
                    errs[(e[0] if e else "?")[:110]] += 1
                    break
            I.close()
        except Violation as v:
            cnt["VIOLATION " + v.oracle] += 1
            print("VIOLATION", v)
            print(json.dumps(case))
    t()
    print("time %.1fs" % (time.time() - t0))
    for k, v in cnt.most_common():
        print(v, k)
    print("--- errors")
    for k, v in errs.most_common(25):
        print(v, k)
    print("--- classes")
    for k, v in sorted(cls.items()):
        print(v, k)
