"""Small helpers for element inventories (C02/C03/C10/C11): phase formulas read from database / input *text*.

Independent of /repo's reader: written from the PHREEQC data-block format.  In a `PHASES` block every phase is

    Name [anything]
        Formula [+ other reactants] = products
        options ...

The *formula of the phase* is the first term of the left-hand side of the equation (manual: "the chemical formula
for the defined phase must be the first term on the left-hand side").  A leading coefficient is not allowed there.

API
---
    phase_formulas(db)         -> dict phase name -> formula text; db = file name in the repo's database directory,
                                  an absolute path, or the text itself (anything containing a newline)
    phase_formulas_text(text)  -> same from a string (also used for PHASES blocks inside a generated input)
    phase_elements(db)         -> dict phase name -> {element: coef}   (formula.py applied to phase_formulas)
    phase_equations(db)        -> dict phase name -> equation text as written
    formula_elements(name, phases) -> elements of `name`: the phase formula if `name` is a phase, else parsed as a formula
    base_element(name)         -> 'C(4)' -> 'C', 'Fe' -> 'Fe'
"""
import os, re
from . import formula as F

KEYWORDS = set("""ADVECTION CALCULATE_VALUES COPY DATABASE DELETE DUMP END EQUILIBRIUM_PHASES EQUILIBRIUM_PHASE PURE_PHASES
PURE_PHASE PURE EXCHANGE EXCHANGE_MASTER_SPECIES EXCHANGE_SPECIES GAS_PHASE INCLUDE$ INCREMENTAL_REACTIONS INVERSE_MODELING
ISOTOPES ISOTOPE_ALPHAS ISOTOPE_RATIOS KINETICS KNOBS LLNL_AQUEOUS_MODEL_PARAMETERS MIX NAMED_EXPRESSIONS PHASES PITZER
PRINT RATES REACTION REACTION_PRESSURE REACTION_TEMPERATURE RUN_CELLS SAVE SELECTED_OUTPUT SIT SOLID_SOLUTIONS SOLID_SOLUTION
SOLUTION SOLUTION_MASTER_SPECIES SOLUTION_SPECIES SOLUTION_SPREAD SURFACE SURFACE_MASTER_SPECIES SURFACE_SPECIES TITLE
TRANSPORT USE USER_GRAPH USER_PRINT USER_PUNCH MEAN_GAMMAS RATE_PARAMETERS_PK RATE_PARAMETERS_SVD RATE_PARAMETERS_HERMANSKA
GAS_BINARY_PARAMETERS SOLUTION_RAW SOLUTION_MODIFY EXCHANGE_RAW SURFACE_RAW EQUILIBRIUM_PHASES_RAW KINETICS_RAW
GAS_PHASE_RAW SOLID_SOLUTIONS_RAW REACTION_RAW MIX_RAW REACTION_TEMPERATURE_RAW REACTION_PRESSURE_RAW""".split())

_cache = {}


def _repo_db_dir():
    return os.path.join(os.environ.get("VERIF_REPO", "/repo"), "database")


def _logical_lines(text):
    for raw in text.split("\n"):
        raw = raw.split("#", 1)[0]
        for part in raw.split(";"):
            part = part.strip()
            if part:
                yield part


def phase_equations_text(text):
    out = {}
    inside = False
    prev = None
    for line in _logical_lines(text):
        first = line.split()[0]
        if first.upper() in KEYWORDS:
            inside = first.upper() == "PHASES"
            prev = None
            continue
        if not inside:
            continue
        if "=" in line and not first.startswith("-") and prev is not None:
            out[prev] = line          # a later definition replaces an earlier one
            prev = None
            continue
        prev = first
    return out


def _first_term(eq):
    lhs = eq.split("=", 1)[0].strip()
    return lhs.split()[0]


def phase_formulas_text(text):
    return {k: _first_term(v) for k, v in phase_equations_text(text).items()}


def _text_of(db):
    if "\n" in db:
        return db
    path = db if os.path.isabs(db) else os.path.join(_repo_db_dir(), db)
    with open(path, "rb") as f:
        return f.read().decode("latin-1")


def phase_equations(db):
    key = ("eq", db if "\n" not in db else hash(db), _repo_db_dir())
    if key not in _cache:
        _cache[key] = phase_equations_text(_text_of(db))
    return _cache[key]


def phase_formulas(db):
    key = ("pf", db if "\n" not in db else hash(db), _repo_db_dir())
    if key not in _cache:
        _cache[key] = {k: _first_term(v) for k, v in phase_equations(db).items()}
    return _cache[key]


def phase_elements(db):
    key = ("pe", db if "\n" not in db else hash(db), _repo_db_dir())
    if key not in _cache:
        out = {}
        for k, v in phase_formulas(db).items():
            try:
                out[k] = F.elements(v)
            except F.FormulaError:
                pass
        _cache[key] = out
    return _cache[key]


def formula_elements(name, phases):
    """phases: dict phase name -> formula text (case-insensitive lookup like the engine's phase search)"""
    f = phases.get(name)
    if f is None:
        low = name.lower()
        for k, v in phases.items():
            if k.lower() == low:
                f = v
                break
    return F.elements(f if f is not None else name)


def base_element(name):
    return name.split("(", 1)[0]
