"""Reference evaluation of PHREEQC BASIC programs for property C17.

Written from the documentation, not from PBasic.cpp:
  * PHREEQC-2 manual (doc/Phreeqc_2_1999_manual.pdf), RATES "Notes", table 8 (special statements: PUT/GET/EXISTS,
    PUNCH, PRINT, SAVE) and table 9 (standard statements and functions: + - * / ^, relational and Boolean operators,
    ABS ARCTAN ASC CHR$ COS DIM DATA EXP FOR/TO/STEP/NEXT GOTO GOSUB IF/THEN/ELSE LEN LOG LOG10 MID$ MOD ON..GOTO/GOSUB
    READ REM RESTORE RETURN SGN SIN SQR(=a^2) SQRT STR$ TAN VAL WHILE/WEND; "statements are evaluated in numerical
    order"; names are case-insensitive; string names end in $),
  * doc/RELEASE (CEIL, FLOOR, PAD, INSTR, LTRIM, RTRIM, TRIM, STR_F$, STR_E$),
  * ordinary BASIC semantics for what the tables name but do not spell out (precedence ^ > unary - > * / > + - >
    relations > AND > OR; relations give 1/0 (DESIGN C17); AND/OR/XOR on integers; FOR tests at the top; NEXT adds STEP;
    arrays 0..n; uninitialised variables are 0 / "").

Everything the documentation leaves open is *not* given a meaning here: the evaluation stops with `Undefined(cls)` and
the check counts the class and does not assert anything about the values (DESIGN section 4 rule 5).  A construct that
no reading of the documentation accepts raises `BasicError`.

Numbers carry a bound `e` on how far a conforming double-precision implementation may differ from the value `v`
computed here (sources: a^b computed as exp(b ln a) instead of pow, the engine's MOD, libm last-place differences;
+ - * / are IEEE operations and add nothing).  A decision (relation, IF, FLOOR, integer conversion, formatted text) that
could come out differently inside that bound raises `Undefined("unstable")`; printed values are compared with
1e-12 relative plus that bound.
"""
import math, re

__all__ = ["BasicError", "Undefined", "run_program", "Num", "RESERVED", "tokenize_line"]


class BasicError(Exception):
    """The program is malformed / fails at run time under every reading of the documentation."""

    def __init__(self, kind, lineno=None):
        Exception.__init__(self, "%s (line %s)" % (kind, lineno))
        self.kind, self.lineno = kind, lineno


class Undefined(Exception):
    """The documentation does not define what happens here (class name is counted by the check)."""

    def __init__(self, cls, msg=""):
        Exception.__init__(self, cls + (": " + msg if msg else ""))
        self.cls = cls


class Num(object):
    __slots__ = ("v", "e")

    def __init__(self, v, e=0.0):
        self.v = float(v)
        self.e = e

    def __repr__(self):
        return "Num(%r,%g)" % (self.v, self.e)


class FStr(object):
    """Result of STR$(x): the documentation fixes the number it denotes, not its layout."""
    __slots__ = ("x",)

    def __init__(self, x):
        self.x = x


BIG = 1e307
ULP = 2.3e-16

# names the interpreter reserves for PHREEQC quantities and commands (manual table 8 and later additions);
# a program using one of them as a variable is outside the documented subset
RESERVED = set("""act add_heading alk aphi calc_value callback cell_no change_por change_surf charge_balance current_a
debye_length delta_h_phase delta_h_species description dh_a0 dh_a dh_av dh_b dh_bdot diff_c dist edl edl_species eps_r
eq_frac equi equi_delta equiv_frac gamma gas gas_p gas_vm get$ get_por gfw graph_x graph_y graph_sy iso iso_unit
iterations kappa kin kin_delta kin_time kinetics_formula kinetics_formula$ la lg list_s_s lk_named lk_phase lk_species
lm m0 m mcd_jtot mcd_jconc misc1 misc2 mol mu osmotic pad$ parm rate_pk rate_svd rate_hermanska meang percent_error
phase_formula phase_formula$ phase_vm plot_xy porevolume pot_v pr_p pr_phi pressure put$ qbrn rho rho_0 rxn s_s sc
setdiff_c si sim_no sim_time soln_vol species_formula species_formula$ phase_equation phase_equation$ species_equation
species_equation$ sr step_no sum_gas sum_s_s sum_species surf sys t_sc f_visc tc time title tk tot total_time totmol
totmole totmoles viscos viscos_0 vm cell_pore_volume cell_porosity cell_saturation cell_volume transport_cell_no
velocity_x velocity_y velocity_z sa_declercq eol$ eol_notab$ no_newline$ peek input stop gotoxy erase poke list run new
load merge bye quit del renum""".upper().split())

STMT_KW = set("REM LET PUNCH PRINT SAVE IF THEN ELSE FOR TO STEP NEXT WHILE WEND GOTO GOSUB RETURN ON DATA READ RESTORE DIM PUT END".split())
OP_KW = set("AND OR XOR NOT MOD".split())
NUM_FUNCS = set("ABS SGN SQR SQRT EXP LOG LOG10 SIN COS TAN ARCTAN CEIL FLOOR VAL ASC LEN INSTR GET EXISTS".split())
STR_FUNCS = set("STR$ CHR$ MID$ LTRIM RTRIM TRIM PAD STR_F$ STR_E$".split())
KEYWORDS = STMT_KW | OP_KW | NUM_FUNCS | STR_FUNCS

_num_re = re.compile(r"(\d+\.?\d*|\.\d+)([eE][+-]?\d+)?")
_id_re = re.compile(r"[A-Za-z][A-Za-z0-9_]*\$?")
_val_re = re.compile(r"^[ ]*[+-]?(\d+\.?\d*|\.\d+)([eE][+-]?\d+)?[ ]*$")


def tokenize_line(text):
    """-> (lineno or None, tokens); tokens are (kind, value) with kind in num str id op.  Raises Undefined/BasicError."""
    s = text.strip(" \t")
    i, n = 0, len(s)
    lineno = None
    m = re.match(r"\d+", s)
    if m and (m.end() == n or s[m.end()] in " \t"):
        lineno = int(m.group(0))
        i = m.end()
    toks = []
    depth = 0
    bad_order = False
    stmt_start = True
    while i < n:
        c = s[i]
        if c in " \t":
            i += 1
            continue
        if c == '"':
            j = s.find('"', i + 1)
            if j < 0:
                raise Undefined("syntax_unterminated_string")
            toks.append(("str", s[i + 1:j]))
            i = j + 1
            stmt_start = False
            continue
        m = _num_re.match(s, i)
        if m and (c.isdigit() or c == "."):
            j = m.end()
            if j < n and (s[j].isalpha() or s[j] in "._$"):
                raise Undefined("syntax_number_glued_to_name")
            toks.append(("num", m.group(0)))
            i = j
            stmt_start = False
            continue
        m = _id_re.match(s, i)
        if m:
            name = m.group(0).upper()
            i = m.end()
            if name == "REM":
                if stmt_start:
                    toks.append(("id", "REM"))
                    break
                raise Undefined("syntax_rem_inside_statement")
            toks.append(("id", name))
            stmt_start = name in ("THEN", "ELSE")
            continue
        two = s[i:i + 2]
        if two in ("<=", ">=", "<>"):
            toks.append(("op", two))
            i += 2
            stmt_start = False
            continue
        if two in ("=<", "=>", "><"):
            raise Undefined("syntax_reversed_relational_operator")
        if c in "+-*/^(),:=<>":
            if c == "(":
                depth += 1
            elif c == ")":
                depth -= 1
                if depth < 0:
                    bad_order = True
            toks.append(("op", c))
            i += 1
            stmt_start = c == ":"
            continue
        raise Undefined("syntax_character", repr(c))
    if depth != 0:
        raise BasicError("unbalanced parentheses", lineno)
    if bad_order:
        # as many ')' as '(' but one closes before it opens: whether that is rejected before the line is executed
        # is not documented
        raise Undefined("syntax_parenthesis_order")
    return lineno, toks


# ------------------------------------------------------------------------------------------ statements
def split_statements(toks, lineno):
    """flat statement list of one line: IF..THEN is one statement, ELSE is a marker statement"""
    out = []
    cur = []
    nif = nelse = 0

    def flush():
        if cur:
            out.append(list(cur))
            del cur[:]

    for t in toks:
        if t == ("op", ":"):
            flush()
            continue
        if t[0] == "id" and t[1] == "REM":
            flush()
            out.append([t])
            break
        if t[0] == "id" and t[1] == "THEN":
            cur.append(t)
            flush()
            continue
        if t[0] == "id" and t[1] == "ELSE":
            flush()
            out.append([t])
            nelse += 1
            continue
        if t[0] == "id" and t[1] == "IF":
            nif += 1
        cur.append(t)
    flush()
    return out, nif, nelse


class Stmt(object):
    __slots__ = ("toks", "line", "idx", "ast", "kind", "loops", "match")

    def __init__(self, toks, line, idx):
        self.toks, self.line, self.idx = toks, line, idx
        self.ast = None
        t0 = toks[0]
        self.kind = t0[1] if t0[0] == "id" and t0[1] in STMT_KW else None
        self.loops = ()
        self.match = None


class Parser(object):
    def __init__(self, toks, lineno):
        self.t, self.i, self.lineno = toks, 0, lineno

    def peek(self):
        return self.t[self.i] if self.i < len(self.t) else (None, None)

    def next(self):
        tok = self.peek()
        self.i += 1
        return tok

    def at_end(self):
        return self.i >= len(self.t)

    def err(self, kind):
        raise BasicError(kind, self.lineno)

    def expect_op(self, op):
        if self.peek() != ("op", op):
            self.err("syntax: expected %s" % op)
        self.i += 1

    def expect_kw(self, kw):
        if self.peek() != ("id", kw):
            self.err("syntax: expected %s" % kw)
        self.i += 1

    def is_kw(self, *kws):
        k, v = self.peek()
        return k == "id" and v in kws

    # expr grammar -------------------------------------------------------------------------------
    def expr(self):
        n = self.andexpr()
        seen = None
        while self.is_kw("OR", "XOR"):
            op = self.next()[1]
            if seen and seen != op:
                raise Undefined("precedence_or_xor_mixed")
            seen = op
            n = ("log", op, n, self.andexpr())
        return n

    def andexpr(self):
        n = self.relexpr()
        while self.is_kw("AND"):
            self.next()
            n = ("log", "AND", n, self.relexpr())
        return n

    def relexpr(self):
        n = self.addexpr()
        while self.peek()[0] == "op" and self.peek()[1] in ("<", ">", "<=", ">=", "<>", "="):
            op = self.next()[1]
            n = ("rel", op, n, self.addexpr())
        return n

    def addexpr(self):
        n = self.term()
        while self.peek() in (("op", "+"), ("op", "-")):
            op = self.next()[1]
            n = ("bin", op, n, self.term())
        return n

    def term(self):
        n = self.unary()
        kinds = set()
        while self.peek() in (("op", "*"), ("op", "/")) or self.is_kw("MOD"):
            op = self.next()[1]
            kinds.add("MOD" if op == "MOD" else "muldiv")
            if len(kinds) > 1:
                raise Undefined("precedence_mod_mixed_with_muldiv")
            n = ("bin", op, n, self.unary())
        return n

    def unary(self):
        if self.peek() in (("op", "-"), ("op", "+")):
            op = self.next()[1]
            if self.peek() in (("op", "-"), ("op", "+")):
                raise Undefined("syntax_double_sign")
            p = self.power()
            if p[0] == "pow":
                raise Undefined("precedence_unary_minus_before_power")
            return ("neg", p) if op == "-" else ("pos", p)
        if self.is_kw("NOT"):
            self.next()
            if self.peek() in (("op", "-"), ("op", "+")) or self.is_kw("NOT"):
                raise Undefined("precedence_not")
            p = self.primary()
            k, v = self.peek()
            if not (k is None or (k == "id" and v in ("AND", "OR", "XOR", "THEN", "ELSE", "TO", "STEP", "GOTO", "GOSUB"))
                    or (k == "op" and v in (")", ","))):
                raise Undefined("precedence_not")
            return ("not", p)
        return self.power()

    def power(self):
        b = self.primary()
        if self.peek() == ("op", "^"):
            self.next()
            if self.peek() in (("op", "-"), ("op", "+")):
                op = self.next()[1]
                e = self.primary()
                if op == "-":
                    e = ("neg", e)
            else:
                e = self.primary()
            if self.peek() == ("op", "^"):
                raise Undefined("precedence_power_chain")
            return ("pow", b, e)
        return b

    def args(self):
        self.expect_op("(")
        a = [self.expr()]
        while self.peek() == ("op", ","):
            self.next()
            a.append(self.expr())
        self.expect_op(")")
        return a

    def primary(self):
        k, v = self.peek()
        if k == "num":
            self.next()
            return ("num", float(v))
        if k == "str":
            self.next()
            return ("str", v)
        if k == "op" and v == "(":
            self.next()
            n = self.expr()
            self.expect_op(")")
            return ("par", n)
        if k == "id":
            if v in NUM_FUNCS or v in STR_FUNCS:
                self.next()
                if self.peek() != ("op", "("):
                    raise Undefined("syntax_function_without_parentheses")
                return ("call", v, self.args())
            if v == "NOT":
                raise Undefined("precedence_not")
            if v in STMT_KW or v in OP_KW:
                self.err("syntax: keyword %s in expression" % v)
            if v in RESERVED:
                raise Undefined("reserved_name", v)
            self.next()
            if self.peek() == ("op", "("):
                return ("arr", v, self.args())
            return ("var", v)
        if k is None:
            self.err("syntax: expression ends unexpectedly")
        if v == ",":
            raise Undefined("syntax_empty_list_item")
        if v == ")":
            raise Undefined("syntax_empty_parentheses")
        self.err("syntax: unexpected %s" % v)

    def lvalue(self):
        k, v = self.peek()
        if k != "id" or v in KEYWORDS:
            self.err("syntax: variable expected")
        if v in RESERVED:
            raise Undefined("reserved_name", v)
        self.next()
        if self.peek() == ("op", "("):
            return ("arr", v, self.args())
        return ("var", v)

    def lineref(self):
        k, v = self.next()
        if k != "num" or not v.isdigit():
            self.err("syntax: line number expected")
        return int(v)

    def done(self):
        if not self.at_end():
            # text after a complete statement: the manual gives no list syntax without separators and does not say
            # that trailing text is an error (the statement itself is complete)
            k, v = self.peek()
            if k in ("num", "str", "id") or (k == "op" and v == "("):
                raise Undefined("syntax_juxtaposed_items")
            raise Undefined("syntax_extra_text")

    # statements -----------------------------------------------------------------------------------
    def statement(self):
        k, v = self.peek()
        if k == "num":
            # only legal directly after THEN / ELSE (handled by the caller)
            self.err("illegal statement start")
        if k != "id":
            self.err("illegal statement start")
        if v == "REM":
            return ("rem",)
        if v == "LET":
            self.next()
            return self.assignment()
        if v in ("PUNCH", "PRINT"):
            self.next()
            if self.at_end():
                raise Undefined("syntax_empty_output_list")
            items = [self.expr()]
            while self.peek() == ("op", ","):
                self.next()
                if self.at_end():
                    raise Undefined("syntax_trailing_comma")
                items.append(self.expr())
            self.done()
            return ("out", items)
        if v == "SAVE":
            self.next()
            e = self.expr()
            self.done()
            return ("save", e)
        if v == "IF":
            self.next()
            c = self.expr()
            if not self.is_kw("THEN"):
                raise Undefined("syntax_if_without_then")
            self.next()
            self.done()
            return ("if", c)
        if v == "FOR":
            self.next()
            lv = self.lvalue()
            if lv[0] != "var" or lv[1].endswith("$"):
                raise Undefined("for_variable_not_simple_numeric")
            self.expect_op("=")
            a = self.expr()
            self.expect_kw("TO")
            b = self.expr()
            s = None
            if self.is_kw("STEP"):
                self.next()
                s = self.expr()
            self.done()
            return ("for", lv[1], a, b, s)
        if v == "NEXT":
            self.next()
            if self.at_end():
                raise Undefined("next_without_variable")
            lv = self.lvalue()
            self.done()
            return ("next", lv[1])
        if v == "WHILE":
            self.next()
            c = self.expr()
            self.done()
            return ("while", c)
        if v == "WEND":
            self.next()
            if not self.at_end():
                raise Undefined("wend_with_argument")
            return ("wend",)
        if v in ("GOTO", "GOSUB"):
            self.next()
            n = self.lineref()
            self.done()
            return (v.lower(), n)
        if v == "RETURN":
            self.next()
            self.done()
            return ("return",)
        if v == "END":
            self.next()
            self.done()
            return ("end",)
        if v == "ON":
            self.next()
            e = self.expr()
            if not self.is_kw("GOTO", "GOSUB"):
                self.err("syntax: ON without GOTO/GOSUB")
            kind = self.next()[1]
            # only the selected entry of the list is ever needed: a damaged entry elsewhere is not defined to be an error
            rest = self.t[self.i:]
            ok = len(rest) % 2 == 1 and all((t[0] == "num" and t[1].isdigit()) if j % 2 == 0 else t == ("op", ",") for j, t in enumerate(rest))
            if not ok:
                raise Undefined("syntax_on_target_list")
            targets = [int(t[1]) for t in rest[0::2]]
            self.i = len(self.t)
            return ("on", kind, e, targets)
        if v == "DATA":
            self.next()
            items = []
            while True:
                sign = 1.0
                if self.peek() == ("op", "-"):
                    self.next()
                    sign = -1.0
                k2, v2 = self.next()
                if k2 == "num":
                    items.append(Num(sign * float(v2)))
                elif k2 == "str" and sign > 0:
                    items.append(v2)
                else:
                    raise Undefined("data_item_form")
                if self.peek() == ("op", ","):
                    self.next()
                    continue
                break
            if not self.at_end():
                raise Undefined("data_item_form")
            return ("data", items)
        if v == "READ":
            self.next()
            lvs = [self.lvalue()]
            while self.peek() == ("op", ","):
                self.next()
                if self.at_end():
                    raise Undefined("syntax_trailing_comma")
                lvs.append(self.lvalue())
            self.done()
            return ("read", lvs)
        if v == "RESTORE":
            self.next()
            n = None
            if not self.at_end():
                n = self.lineref()
            self.done()
            return ("restore", n)
        if v == "DIM":
            self.next()
            decl = []
            while True:
                lv = self.lvalue()
                if lv[0] != "arr":
                    self.err("syntax: DIM without bounds")
                decl.append(lv)
                if self.peek() == ("op", ","):
                    self.next()
                    if self.at_end():
                        raise Undefined("syntax_trailing_comma")
                    continue
                break
            self.done()
            return ("dim", decl)
        if v == "PUT":
            self.next()
            a = self.args()
            if len(a) < 2:
                self.err("syntax: PUT needs a value and a subscript")
            self.done()
            return ("put", a)
        if v in ("THEN", "TO", "STEP") or v in OP_KW or v in NUM_FUNCS or v in STR_FUNCS:
            self.err("illegal statement start")
        if v in RESERVED:
            raise Undefined("reserved_name", v)
        return self.assignment()

    def assignment(self):
        lv = self.lvalue()
        if self.peek() != ("op", "="):
            self.err("syntax: = expected")
        self.next()
        e = self.expr()
        self.done()
        return ("let", lv, e)


# ------------------------------------------------------------------------------------------ values
def _chk(x):
    if x != x or abs(x) > BIG:
        raise Undefined("overflow_or_nan")
    return x


def num(v, e=0.0):
    _chk(v)
    if e != e or e > BIG:
        raise Undefined("unstable", "error bound overflow")
    return Num(v, e)


def need_num(x, lineno):
    if not isinstance(x, Num):
        raise BasicError("type mismatch", lineno)
    return x


def need_str(x, lineno):
    if isinstance(x, FStr):
        raise Undefined("str_layout")
    if not isinstance(x, str):
        raise BasicError("type mismatch", lineno)
    return x


def exact_int(x, what, lo=None, hi=None):
    """integer value of a number that must be an integer by the documentation's wording; an inexact value is not
    converted (the manual does not say whether conversions round or truncate)"""
    r = round(x.v)
    if abs(x.v - r) > x.e:
        raise Undefined("noninteger_" + what)
    if x.e > 0:
        raise Undefined("unstable", "integer conversion of an inexact value: " + what)
    r = int(r)
    if (lo is not None and r < lo) or (hi is not None and r > hi):
        raise Undefined("range_" + what)
    return r


class Machine(object):
    def __init__(self, lines, step_limit, store):
        self.step_limit = step_limit
        self.store = store if store is not None else {}
        self.vars = {}
        self.arrays = {}
        self.outputs = []
        self.saved = None
        self.stats = {}
        self.steps = 0
        # program
        prog = {}
        order = []
        for text in lines:
            if text.strip(" \t") == "":
                continue
            lineno, toks = tokenize_line(text)
            if lineno is None:
                raise Undefined("missing_line_number")
            if not toks:
                raise Undefined("empty_numbered_line")
            if lineno in prog:
                raise Undefined("duplicate_line_number")
            prog[lineno] = toks
        self.linenos = sorted(prog)
        self.flat = []
        self.first_of_line = {}
        self.line_has_else = {}
        for ln in self.linenos:
            sts, nif, nelse = split_statements(prog[ln], ln)
            if nelse and nif != 1:
                raise Undefined("else_pairing", "line %d" % ln)
            if nelse > 1:
                raise Undefined("else_pairing", "line %d" % ln)
            self.first_of_line[ln] = len(self.flat)
            for k, tk in enumerate(sts):
                self.flat.append(Stmt(tk, ln, k))
        self._static_structure()

    def _static_structure(self):
        """textual FOR/NEXT and WHILE/WEND pairing; each statement knows its enclosing loops"""
        stack = []
        # a loop keyword that is not the first word of a statement: the pairing of loops is then not defined
        self.misplaced_loop_word = any(t[0] == "id" and t[1] in ("FOR", "NEXT", "WHILE", "WEND") for s in self.flat
                                       if s.kind != "REM" for t in s.toks[1:])
        self.misplaced_data_word = any(t[0] == "id" and t[1] == "DATA" for s in self.flat if s.kind != "REM" for t in s.toks[1:])
        for p, s in enumerate(self.flat):
            k = s.kind
            if k in ("NEXT", "WEND"):
                want = "FOR" if k == "NEXT" else "WHILE"
                if stack and self.flat[stack[-1]].kind == want:
                    q = stack.pop()
                    s.match = q
                    self.flat[q].match = p
                    s.loops = tuple(stack) + (q,)     # the closing statement belongs to its loop ("continue" jumps)
                    continue
                s.loops = tuple(stack)
                continue
            s.loops = tuple(stack)
            if k in ("FOR", "WHILE"):
                stack.append(p)

    def count(self, what):
        self.stats[what] = self.stats.get(what, 0) + 1

    # -- evaluation ----------------------------------------------------------------------------
    def ev(self, n, ln):
        t = n[0]
        if t == "num":
            return Num(n[1])
        if t == "str":
            return n[1]
        if t == "par":
            return self.ev(n[1], ln)
        if t == "var":
            name = n[1]
            if name in self.arrays:
                raise Undefined("array_used_as_scalar")
            if name.endswith("$"):
                return self.vars.get(name, "")
            return self.vars.get(name, Num(0.0))
        if t == "arr":
            return self.arr_get(n, ln)
        if t == "neg":
            x = need_num(self.ev(n[1], ln), ln)
            return Num(-x.v, x.e)
        if t == "pos":
            return need_num(self.ev(n[1], ln), ln)
        if t == "not":
            x = need_num(self.ev(n[1], ln), ln)
            i = exact_int(x, "logical_operand", -2 ** 31, 2 ** 31)
            if i not in (0, -1):
                raise Undefined("not_bitwise_vs_logical")
            self.count("op_NOT")
            return Num(-1.0 if i == 0 else 0.0)
        if t == "bin":
            return self.binop(n[1], self.ev(n[2], ln), self.ev(n[3], ln), ln)
        if t == "pow":
            a = need_num(self.ev(n[1], ln), ln)
            b = need_num(self.ev(n[2], ln), ln)
            return self.power(a, b)
        if t == "rel":
            return self.relop(n[1], self.ev(n[2], ln), self.ev(n[3], ln), ln)
        if t == "log":
            a = need_num(self.ev(n[2], ln), ln)
            b = need_num(self.ev(n[3], ln), ln)
            i = exact_int(a, "logical_operand", -2 ** 31, 2 ** 31)
            j = exact_int(b, "logical_operand", -2 ** 31, 2 ** 31)
            self.count("op_" + n[1])
            r = (i & j) if n[1] == "AND" else (i | j) if n[1] == "OR" else (i ^ j)
            return Num(float(r))
        if t == "call":
            if n[1] in ("LTRIM", "RTRIM", "TRIM", "INSTR") and any(a[0] == "bin" for a in n[2]):
                # recorded finding: these four functions reject an unparenthesised concatenation as argument
                raise Undefined("known_string_function_argument_is_concatenation")
            return self.call(n[1], [self.ev(a, ln) for a in n[2]], ln)
        raise AssertionError(t)

    def binop(self, op, a, b, ln):
        if op == "+" and not isinstance(a, Num) and not isinstance(b, Num):
            self.count("op_concat")
            return need_str(a, ln) + need_str(b, ln)
        a = need_num(a, ln)
        b = need_num(b, ln)
        self.count("op_" + op)
        if op == "+":
            return num(a.v + b.v, a.e + b.e)
        if op == "-":
            return num(a.v - b.v, a.e + b.e)
        if op == "*":
            return num(a.v * b.v, abs(a.v) * b.e + abs(b.v) * a.e + a.e * b.e)
        if op == "/":
            if b.v == 0.0 and b.e == 0.0:
                raise Undefined("division_by_zero")
            if abs(b.v) <= 2 * b.e:
                raise Undefined("unstable", "divisor")
            r = a.v / b.v
            return num(r, (a.e + abs(r) * b.e) / (abs(b.v) - b.e))
        if op == "MOD":
            if b.e != 0.0 or b.v != math.floor(b.v):
                raise Undefined("mod_noninteger")
            if b.v == 0.0:
                raise Undefined("mod_zero")
            r = round(a.v)
            if abs(a.v - r) > a.e:
                raise Undefined("mod_noninteger")
            if a.e >= 4e-15 and a.e >= 1e-16 * abs(r):
                raise Undefined("unstable", "MOD operand")
            if abs(r) > 2.0 ** 52 or abs(b.v) > 2.0 ** 52:
                raise Undefined("mod_huge")
            return num(math.fmod(r, b.v), 2e-14 + 4.5e-16 * abs(r))
        raise AssertionError(op)

    def power(self, a, b):
        self.count("op_^")
        if a.v == 0.0 or abs(a.v) <= a.e:
            raise Undefined("zero_to_power")
        if a.v < 0:
            if b.e != 0.0 or b.v != math.floor(b.v):
                raise Undefined("negative_base_fractional_exponent")
            if abs(b.v) > 1e6:
                raise Undefined("overflow_or_nan")
        if b.v == 0.0 and b.e == 0.0:
            return Num(1.0)
        try:
            r = math.pow(a.v, b.v)
            la = math.log(abs(a.v))
        except (OverflowError, ValueError):
            raise Undefined("overflow_or_nan")
        _chk(r)
        if r == 0.0 or abs(r) < 1e-290:
            raise Undefined("underflow_in_power")
        rel = 1e-15 * (abs(b.v * la) + 2) + abs(b.v) * a.e / (abs(a.v) - a.e) + abs(la) * b.e
        if rel > 1e-3:
            raise Undefined("unstable", "power")
        return num(r, abs(r) * rel * 1.01)

    def relop(self, op, a, b, ln):
        self.count("rel")
        if isinstance(a, Num) != isinstance(b, Num):
            raise BasicError("type mismatch", ln)
        if isinstance(a, Num):
            tol = a.e + b.e
            d = a.v - b.v
            if tol > 0 and abs(d) <= 2 * tol:
                raise Undefined("unstable", "relation")
            c = (d > 0) - (d < 0)
        else:
            a = need_str(a, ln)
            b = need_str(b, ln)
            self.count("rel_string")
            c = (a > b) - (a < b)
        r = {"<": c < 0, ">": c > 0, "<=": c <= 0, ">=": c >= 0, "=": c == 0, "<>": c != 0}[op]
        return Num(1.0 if r else 0.0)

    def truth(self, x, ln):
        x = need_num(x, ln)
        if x.e > 0 and abs(x.v) <= 2 * x.e:
            raise Undefined("unstable", "condition")
        return x.v != 0.0

    def subscripts(self, args, ln, what):
        out = []
        for a in args:
            x = need_num(self.ev(a, ln), ln)
            out.append(exact_int(x, what))
        return tuple(out)

    def store_key(self, vals):
        """PUT, GET and EXISTS identify a value by "a sequence of one or more subscripts" (manual, table 8): the same
        subscript values name the same entry in all three.  How a non-integer subscript is converted is not documented;
        it is only assumed that the conversion is one function with a result between floor and ceil.  A non-integer
        subscript that could share an entry with a different subscript under such a conversion is not given a meaning."""
        key = []
        for x in vals:
            if x.e > 0:
                raise Undefined("unstable", "store subscript of an inexact value")
            if abs(x.v) > 1e9:
                raise Undefined("range_store_subscript")
            key.append(int(x.v) if x.v == math.floor(x.v) else x.v)
        key = tuple(key)
        isfloat = any(isinstance(c, float) for c in key)
        if isfloat:
            self.count("store_noninteger_subscript")
        if isfloat or any(isinstance(c, float) for k2 in self.store for c in k2):
            def cand(c):
                return (c, c) if isinstance(c, int) else (math.floor(c), math.ceil(c))
            for k2 in self.store:
                if k2 != key and len(k2) == len(key) and all(cand(a)[0] <= cand(b)[1] and cand(b)[0] <= cand(a)[1] for a, b in zip(key, k2)):
                    raise Undefined("store_subscript_conversion_ambiguous")
        return key

    def arr_get(self, n, ln):
        name = n[1]
        if name not in self.arrays:
            raise Undefined("array_without_dim", name)
        dims, data = self.arrays[name]
        idx = self.subscripts(n[2], ln, "subscript")
        if len(idx) != len(dims):
            raise BasicError("bad subscript", ln)
        for i, d in zip(idx, dims):
            if i < 0 or i > d:
                raise BasicError("bad subscript", ln)
        self.count("array_read")
        return data.get(idx, "" if name.endswith("$") else Num(0.0))

    def assign(self, lv, val, ln):
        name = lv[1]
        if name.endswith("$"):
            if isinstance(val, Num):
                raise BasicError("type mismatch", ln)
            if isinstance(val, FStr):
                raise Undefined("str_layout")
        elif not isinstance(val, Num):
            raise BasicError("type mismatch", ln)
        if lv[0] == "var":
            if name in self.arrays:
                raise Undefined("array_used_as_scalar")
            self.vars[name] = val
            return
        if name not in self.arrays:
            raise Undefined("array_without_dim", name)
        dims, data = self.arrays[name]
        idx = self.subscripts(lv[2], ln, "subscript")
        if len(idx) != len(dims):
            raise BasicError("bad subscript", ln)
        for i, d in zip(idx, dims):
            if i < 0 or i > d:
                raise BasicError("bad subscript", ln)
        self.count("array_write")
        data[idx] = val

    def call(self, f, a, ln):
        self.count("fn_" + f)

        def nargs(*ok):
            if len(a) not in ok:
                raise BasicError("wrong number of arguments for " + f, ln)

        if f in ("ABS", "SGN", "SQR", "SQRT", "EXP", "LOG", "LOG10", "SIN", "COS", "TAN", "ARCTAN", "CEIL", "FLOOR"):
            nargs(1)
            x = need_num(a[0], ln)
            v, e = x.v, x.e
            try:
                if f == "ABS":
                    return num(abs(v), e)
                if f == "SGN":
                    if v == 0.0:
                        raise Undefined("sgn_of_zero")
                    if abs(v) <= 2 * e:
                        raise Undefined("unstable", "SGN")
                    return Num(1.0 if v > 0 else -1.0)
                if f == "SQR":
                    return num(v * v, 2 * abs(v) * e + e * e)
                if f == "SQRT":
                    if v < 0:
                        raise Undefined("domain_sqrt")
                    if e > 0 and v - 2 * e <= 0:
                        raise Undefined("unstable", "SQRT near 0")
                    r = math.sqrt(v)
                    return num(r, (e / (2 * math.sqrt(v - e)) if e > 0 else 0.0))
                if f == "EXP":
                    if v > 690:
                        raise Undefined("overflow_or_nan")
                    if v < -650:
                        raise Undefined("underflow_in_exp")
                    if v == 0.0 and e == 0.0:
                        return Num(1.0)
                    r = math.exp(v)
                    return num(r, r * (math.expm1(e) if e < 50 else BIG) + 2 * ULP * r)
                if f in ("LOG", "LOG10"):
                    if v <= 0:
                        raise Undefined("domain_log")
                    if e > 0 and v - 2 * e <= 0:
                        raise Undefined("unstable", "LOG near 0")
                    r = math.log(v) if f == "LOG" else math.log10(v)
                    d = e / (v - e) / (1.0 if f == "LOG" else math.log(10.0))
                    return num(r, d + 2 * ULP * abs(r))
                if f in ("SIN", "COS"):
                    if abs(v) > 1e8:
                        raise Undefined("trig_huge_argument")
                    if v == 0.0 and e == 0.0:
                        return Num(0.0 if f == "SIN" else 1.0)
                    r = math.sin(v) if f == "SIN" else math.cos(v)
                    return num(r, e + 2 * ULP * abs(r))
                if f == "TAN":
                    if abs(v) > 1e8:
                        raise Undefined("trig_huge_argument")
                    r = math.tan(v)
                    if abs(r) > 1e8:
                        raise Undefined("domain_tan_pole")
                    d = e * (1 + r * r) * 2
                    if d > 1e-3 * (1 + abs(r)):
                        raise Undefined("unstable", "TAN")
                    return num(r, d + 4 * ULP * abs(r))
                if f == "ARCTAN":
                    r = math.atan(v)
                    return num(r, e + 2 * ULP * abs(r))
                if f in ("CEIL", "FLOOR"):
                    g = math.ceil if f == "CEIL" else math.floor
                    if abs(v) > 2.0 ** 52:
                        return num(v, e)
                    r = g(v)
                    if e > 0 and (g(v - 2 * e) != r or g(v + 2 * e) != r):
                        raise Undefined("unstable", f)
                    r = float(r)
                    if r == 0.0:
                        r = math.copysign(0.0, v)      # IEEE: ceil(-0.3) is -0
                    return Num(r)
            except (OverflowError, ValueError):
                raise Undefined("overflow_or_nan")
        if f == "VAL":
            nargs(1)
            s = a[0]
            if isinstance(s, FStr):
                x = s.x
                i = exact_int(x, "str_layout_noninteger")
                if abs(x.v) >= 1e249:
                    # whole numbers of 1e250 and more are written in exponential format with 5 (13 under
                    # -high_precision) significant digits: the round trip is exact to that many digits only
                    return Num(x.v, 2e-5 * abs(x.v))
                return Num(float(i))
            s = need_str(s, ln)
            if not _val_re.match(s):
                raise Undefined("val_of_nonnumeric_text")
            return num(float(s))
        if f == "ASC":
            nargs(1)
            s = need_str(a[0], ln)
            if s == "":
                raise Undefined("asc_of_empty_string")
            return Num(float(ord(s[0])))
        if f == "LEN":
            nargs(1)
            return Num(float(len(need_str(a[0], ln))))
        if f == "INSTR":
            nargs(2)
            s, t = need_str(a[0], ln), need_str(a[1], ln)
            if t == "":
                raise Undefined("instr_empty_pattern")
            return Num(float(s.find(t) + 1))
        if f in ("GET", "EXISTS"):
            if not a:
                raise BasicError("wrong number of arguments for " + f, ln)
            key = self.store_key([need_num(x, ln) for x in a])
            if f == "GET":
                return self.store.get(key, Num(0.0))
            return Num(1.0 if key in self.store else 0.0)
        if f == "STR$":
            nargs(1)
            return FStr(need_num(a[0], ln))
        if f == "CHR$":
            nargs(1)
            i = exact_int(need_num(a[0], ln), "chr_code")
            if i < 32 or i > 126:
                raise Undefined("chr_code_not_printable_ascii")
            return chr(i)
        if f == "MID$":
            nargs(2, 3)
            s = need_str(a[0], ln)
            p = exact_int(need_num(a[1], ln), "mid_position")
            if p < 1:
                raise Undefined("mid_position_below_1")
            if len(a) == 3:
                m = exact_int(need_num(a[2], ln), "mid_length")
                if m < 0:
                    raise Undefined("mid_negative_length")
                return s[p - 1:p - 1 + m]
            return s[p - 1:]
        if f in ("LTRIM", "RTRIM", "TRIM"):
            nargs(1)
            s = a[0]
            if isinstance(s, FStr):
                if f == "RTRIM":
                    return s
                i = exact_int(s.x, "str_layout_noninteger")
                if abs(i) >= 10 ** 15:
                    raise Undefined("str_layout")
                if i == 0 and math.copysign(1.0, s.x.v) < 0:
                    raise Undefined("str_layout")
                return "%d" % i
            s = need_str(s, ln)
            return s.lstrip(" \t") if f == "LTRIM" else s.rstrip(" \t") if f == "RTRIM" else s.strip(" \t")
        if f == "PAD":
            nargs(2)
            s = need_str(a[0], ln)
            w = exact_int(need_num(a[1], ln), "pad_width")
            if w < 0 or w > 200:
                raise Undefined("range_pad_width")
            return s + " " * (w - len(s)) if len(s) < w else s
        if f in ("STR_F$", "STR_E$"):
            nargs(3)
            x = need_num(a[0], ln)
            w = exact_int(need_num(a[1], ln), "format_width")
            d = exact_int(need_num(a[2], ln), "format_decimals")
            if w < 0 or w > 60 or d < 0 or d > 18:
                raise Undefined("range_format")
            if f == "STR_F$" and abs(x.v) >= 1e40:
                raise Undefined("range_format")
            fmt = "%*.*f" if f == "STR_F$" else "%*.*e"
            s = fmt % (w, d, x.v)
            if x.e > 0 and (fmt % (w, d, x.v - 2 * x.e) != s or fmt % (w, d, x.v + 2 * x.e) != s):
                raise Undefined("unstable", "formatted digits")
            if x.v == 0.0 and math.copysign(1.0, x.v) < 0:
                raise Undefined("negative_zero_text")      # the sign of a zero is not a documented property
            return s
        raise AssertionError(f)

    # -- execution -----------------------------------------------------------------------------
    def find_line(self, n, ln):
        if n not in self.first_of_line:
            raise BasicError("undefined line %d" % n, ln)
        return self.first_of_line[n]

    def jump(self, src, n, ln, call=False):
        p = self.find_line(n, ln)
        tgt = self.flat[p]
        if call:
            if tgt.loops:
                raise Undefined("jump_into_loop")
        elif tgt.loops != self.flat[src].loops:
            sl = self.flat[src].loops
            # leaving loops by a forward jump into the text of an enclosing loop (or to the top level) is ordinary BASIC;
            # jumps into a loop, and backwards out of one, are not given a meaning here
            if len(tgt.loops) < len(sl) and sl[:len(tgt.loops)] == tgt.loops and p > src:
                self.count("goto_out_of_loop")
            else:
                raise Undefined("jump_across_loop_boundary")
        return p

    def next_line_start(self, p):
        ln = self.flat[p].line
        q = p + 1
        while q < len(self.flat) and self.flat[q].line == ln:
            q += 1
        return q

    def run(self):
        flat = self.flat
        pc = 0
        loops = []      # dynamic: ("FOR", stmt position, var, limit, step) / ("WHILE", pos) / ("GOSUB", return pc)
        data_ptr = [0, 0]   # index into list of data statements (by position), item
        datas = [p for p, s in enumerate(flat) if s.kind == "DATA"]
        nflat = len(flat)
        while pc < nflat:
            self.steps += 1
            if self.steps > self.step_limit:
                raise Undefined("step_limit")
            s = flat[pc]
            ln = s.line
            toks = s.toks
            # implicit GOTO after THEN / ELSE
            if toks[0][0] == "num":
                prev = flat[pc - 1] if pc > 0 and flat[pc - 1].line == ln else None
                if prev is not None and (prev.kind == "ELSE" or (prev.kind == "IF")) and len(toks) == 1 and toks[0][1].isdigit():
                    self.count("stmt_if_lineno")
                    pc = self.jump(pc, int(toks[0][1]), ln)
                    continue
                if prev is not None and (prev.kind in ("ELSE", "IF")):
                    raise Undefined("syntax_juxtaposed_items")
                raise BasicError("illegal statement start", ln)
            if s.kind == "ELSE":
                # reached after the THEN part: the rest of the line is the ELSE part
                if not any(flat[q].kind == "IF" for q in range(pc - 1, -1, -1) if flat[q].line == ln):
                    raise Undefined("else_without_if")
                pc = self.next_line_start(pc)
                continue
            if s.ast is None:
                s.ast = Parser(toks, ln).statement()
            a = s.ast
            k = a[0]
            if k == "rem":
                self.count("stmt_rem")
                pc += 1
            elif k == "let":
                self.assign(a[1], self.ev(a[2], ln), ln)
                self.count("stmt_let")
                pc += 1
            elif k == "out":
                vals = []
                for it in a[1]:
                    v = self.ev(it, ln)
                    if isinstance(v, FStr):
                        raise Undefined("str_layout")
                    vals.append(v)
                self.outputs.append(vals)
                pc += 1
            elif k == "save":
                self.saved = need_num(self.ev(a[1], ln), ln)
                pc += 1
            elif k == "if":
                c = self.truth(self.ev(a[1], ln), ln)
                self.count("stmt_if_true" if c else "stmt_if_false")
                if c:
                    pc += 1
                    if pc >= nflat or flat[pc].line != ln:
                        raise Undefined("syntax_empty_then")
                else:
                    q = pc + 1
                    while q < nflat and flat[q].line == ln and flat[q].kind != "ELSE":
                        q += 1
                    if q < nflat and flat[q].line == ln:
                        self.count("stmt_else_taken")
                        pc = q + 1
                        if pc >= nflat or flat[pc].line != ln:
                            raise Undefined("syntax_empty_else")
                    else:
                        pc = q
            elif k == "for":
                x0 = need_num(self.ev(a[2], ln), ln)
                lim = need_num(self.ev(a[3], ln), ln)
                st = need_num(self.ev(a[4], ln), ln) if a[4] is not None else Num(1.0)
                if st.v == 0.0 or abs(st.v) <= 2 * st.e:
                    raise Undefined("for_step_zero")
                if a[1] in self.arrays:
                    raise Undefined("array_used_as_scalar")
                self.vars[a[1]] = x0
                self.count("stmt_for")
                if a[4] is not None:
                    self.count("for_step_negative" if st.v < 0 else "for_step_fractional" if st.v != math.floor(st.v) else "for_step_explicit")
                if self.beyond(x0, lim, st):
                    self.count("for_zero_trip")
                    if s.match is None:
                        raise Undefined("for_zero_trip_without_next")
                    self.regular_region(pc, s.match)
                    pc = s.match + 1
                else:
                    loops.append(("FOR", pc, a[1], lim, st))
                    pc += 1
            elif k == "next":
                # ordinary BASIC: NEXT v continues the innermost active FOR v of this subroutine level; loops begun
                # inside it and left early (GOTO out of the loop) are discarded
                base = self._last_gosub(loops) + 1 if any(l[0] == "GOSUB" for l in loops) else 0
                idx = None
                for q in range(len(loops) - 1, base - 1, -1):
                    if loops[q][0] == "FOR" and loops[q][2] == a[1]:
                        idx = q
                        break
                if idx is None:
                    raise BasicError("NEXT without FOR", ln)
                top = loops[idx]
                if s.match != top[1]:
                    raise Undefined("next_not_matching_innermost_for")
                if idx != len(loops) - 1:
                    self.count("next_discards_loops_left_early")
                    del loops[idx + 1:]
                x = self.vars.get(a[1], Num(0.0))
                x = num(x.v + top[4].v, x.e + top[4].e)
                self.vars[a[1]] = x
                if self.beyond(x, top[3], top[4]):
                    loops.pop()
                    pc += 1
                else:
                    self.count("for_iteration")
                    pc = top[1] + 1
            elif k == "while":
                c = self.truth(self.ev(a[1], ln), ln)
                self.count("stmt_while")
                if c:
                    loops.append(("WHILE", pc))
                    pc += 1
                else:
                    self.count("while_zero_trip")
                    if s.match is None:
                        if self.misplaced_loop_word:
                            raise Undefined("loop_keyword_inside_statement")
                        if any(q.kind in ("FOR", "NEXT", "WHILE", "WEND") and q.match is None and q is not s for q in flat):
                            # other loops are damaged too: which WEND ends the skipped text is not defined
                            raise Undefined("skip_over_irregular_loop_structure")
                        raise BasicError("WHILE without WEND", ln)
                    self.regular_region(pc, s.match)
                    pc = s.match + 1
            elif k == "wend":
                base = self._last_gosub(loops) + 1 if any(l[0] == "GOSUB" for l in loops) else 0
                idx = None
                for q in range(len(loops) - 1, base - 1, -1):
                    if loops[q][0] == "WHILE":
                        idx = q
                        break
                if idx is None:
                    raise BasicError("WEND without WHILE", ln)
                if s.match is None:
                    raise Undefined("wend_not_matching_innermost_while")
                if loops[idx][1] != s.match:
                    # the WHILE of this WEND is active, but an inner WHILE that was left early (GOTO) is still on record:
                    # recorded finding - the engine resumes that inner loop instead of this one
                    if any(l == ("WHILE", s.match) for l in loops[base:]):
                        raise Undefined("known_wend_after_early_exit_from_inner_while")
                    raise Undefined("wend_not_matching_innermost_while")
                if idx != len(loops) - 1:
                    self.count("wend_discards_loops_left_early")
                    del loops[idx + 1:]
                w = flat[s.match]
                if w.ast is None:
                    w.ast = Parser(w.toks, w.line).statement()
                if self.truth(self.ev(w.ast[1], w.line), w.line):
                    self.count("while_iteration")
                    pc = s.match + 1
                else:
                    loops.pop()
                    pc += 1
            elif k == "goto":
                self.count("stmt_goto")
                pc = self.jump(pc, a[1], ln)
            elif k == "gosub":
                self.count("stmt_gosub")
                depth = sum(1 for l in loops if l[0] == "GOSUB")
                self.stats["gosub_depth"] = max(self.stats.get("gosub_depth", 0), depth + 1)
                if depth > 40:
                    raise Undefined("gosub_depth")
                q = self.jump(pc, a[1], ln, call=True)
                loops.append(("GOSUB", self._return_point(pc)))
                pc = q
            elif k == "return":
                if not any(l[0] == "GOSUB" for l in loops):
                    raise BasicError("RETURN without GOSUB", ln)
                g = self._last_gosub(loops)
                if g != len(loops) - 1:
                    self.count("return_from_inside_loop")      # loops begun in the subroutine end with it
                self.count("stmt_return")
                pc = loops[g][1]
                del loops[g:]
            elif k == "on":
                x = need_num(self.ev(a[2], ln), ln)
                fr = x.v - math.floor(x.v)
                if abs(fr - 0.5) <= 2 * x.e + 1e-9:
                    raise Undefined("on_rounding_of_half")
                n = int(math.floor(x.v + 0.5))
                self.count("stmt_on_" + a[1].lower())
                if 1 <= n <= len(a[3]):
                    if a[1] == "GOTO":
                        pc = self.jump(pc, a[3][n - 1], ln)
                    else:
                        depth = sum(1 for l in loops if l[0] == "GOSUB")
                        self.stats["gosub_depth"] = max(self.stats.get("gosub_depth", 0), depth + 1)
                        q = self.jump(pc, a[3][n - 1], ln, call=True)
                        loops.append(("GOSUB", self._return_point(pc)))
                        pc = q
                else:
                    self.count("on_out_of_range")
                    pc += 1
            elif k == "data":
                pc += 1
            elif k == "read":
                if self.misplaced_data_word:
                    raise Undefined("data_keyword_inside_statement")
                for lv in a[1]:
                    item = None
                    while data_ptr[0] < len(datas):
                        st_ = flat[datas[data_ptr[0]]]
                        if st_.ast is None:
                            st_.ast = Parser(st_.toks, st_.line).statement()
                        items = st_.ast[1]
                        if data_ptr[1] < len(items):
                            item = items[data_ptr[1]]
                            data_ptr[1] += 1
                            break
                        data_ptr[0] += 1
                        data_ptr[1] = 0
                    if item is None:
                        raise BasicError("out of data", ln)
                    if lv[1].endswith("$") != isinstance(item, str):
                        raise Undefined("read_type_conversion")
                    self.assign(lv, item, ln)
                    self.count("stmt_read")
                pc += 1
            elif k == "restore":
                self.count("stmt_restore")
                if a[1] is None:
                    data_ptr[0], data_ptr[1] = 0, 0
                else:
                    p = self.find_line(a[1], ln)
                    tl = flat[p].line
                    cand = [i for i, q in enumerate(datas) if flat[q].line == tl]
                    if not cand:
                        raise Undefined("restore_to_line_without_data")
                    if flat[datas[cand[0]]].idx != 0:
                        raise Undefined("restore_to_line_without_data")
                    data_ptr[0], data_ptr[1] = cand[0], 0
                    self.count("restore_line")
                pc += 1
            elif k == "dim":
                for d in a[1]:
                    name = d[1]
                    if name in self.arrays or name in self.vars:
                        raise Undefined("redimension")
                    dims = self.subscripts(d[2], ln, "dimension")
                    if len(dims) > 1:
                        raise Undefined("multidimensional_array")
                    for x in dims:
                        if x < 0:
                            raise Undefined("range_dimension")
                        if x > 100000:
                            raise Undefined("range_dimension")
                    self.arrays[name] = (dims, {})
                    self.count("stmt_dim")
                pc += 1
            elif k == "put":
                v = need_num(self.ev(a[1][0], ln), ln)
                key = self.store_key([need_num(self.ev(x, ln), ln) for x in a[1][1:]])
                self.store[key] = v
                self.count("stmt_put")
                pc += 1
            elif k == "end":
                self.count("stmt_end")
                break
            else:
                raise AssertionError(k)

    def regular_region(self, p0, p1):
        """a loop body that is skipped without being executed: where the skipping ends is defined only if the loops in
        it are properly nested, every NEXT names the variable of its FOR and no loop keyword hides inside a statement"""
        if self.misplaced_loop_word:
            raise Undefined("loop_keyword_inside_statement")
        flat = self.flat
        for q in range(p0, p1 + 1):
            st_ = flat[q]
            if st_.kind in ("FOR", "NEXT", "WHILE", "WEND"):
                if st_.match is None or not (p0 <= st_.match <= p1):
                    raise Undefined("skip_over_irregular_loop_structure")
                if st_.kind == "FOR":
                    try:
                        a = Parser(st_.toks, st_.line).statement()
                        b = Parser(flat[st_.match].toks, flat[st_.match].line).statement()
                    except BasicError:
                        raise Undefined("skip_over_irregular_loop_structure")
                    if a[0] != "for" or b[0] != "next" or a[1] != b[1]:
                        raise Undefined("skip_over_irregular_loop_structure")

    @staticmethod
    def _last_gosub(loops):
        for i in range(len(loops) - 1, -1, -1):
            if loops[i][0] == "GOSUB":
                return i
        return 0

    def _return_point(self, pc):
        """execution continues with the statement after the GOSUB"""
        return pc + 1

    def beyond(self, x, lim, st):
        tol = x.e + lim.e
        d = x.v - lim.v
        if tol > 0 and abs(d) <= 2 * tol:
            raise Undefined("unstable", "FOR bound")
        return d > 0 if st.v > 0 else d < 0


class Result(object):
    __slots__ = ("status", "outputs", "saved", "error", "undefined", "stats", "steps", "store")

    def __repr__(self):
        return "Result(%s, outputs=%r, error=%r, undefined=%r)" % (self.status, self.outputs, self.error, self.undefined)


def run_program(lines, step_limit=200000, store=None):
    """lines: list of program text lines.  -> Result(status = ok | error | undefined)"""
    r = Result()
    r.outputs, r.saved, r.error, r.undefined, r.stats, r.steps, r.store = [], None, None, None, {}, 0, store
    m = None
    try:
        m = Machine(lines, step_limit, store)
        m.run()
        r.status = "ok"
    except BasicError as e:
        r.status = "error"
        r.error = (e.kind, e.lineno)
    except Undefined as u:
        r.status = "undefined"
        r.undefined = u.cls
    except RecursionError:
        r.status = "undefined"
        r.undefined = "expression_nesting"
    if m is not None:
        r.outputs, r.saved, r.stats, r.steps, r.store = m.outputs, m.saved, m.stats, m.steps, m.store
    return r


# =========================================================================================== generator
# Programs over the documented subset.  Every numeric expression carries a static interval (and "is an exact
# integer"), every string expression a length range, so that domain errors, overflow, non-integer MOD/subscripts,
# 0^x etc. are avoided by construction; what is avoided is counted in meta["avoided"].
class Nd(object):
    __slots__ = ("txt", "prec", "lo", "hi", "isint", "typ", "lmin", "lmax", "op")

    def __init__(self, txt, prec, lo=0.0, hi=0.0, isint=False, typ="n", lmin=0, lmax=0, op=None):
        self.txt, self.prec, self.lo, self.hi, self.isint, self.typ = txt, prec, lo, hi, isint, typ
        self.lmin, self.lmax, self.op = lmin, lmax, op


P_OR, P_AND, P_REL, P_ADD, P_MUL, P_NEG, P_POW, P_ATOM = 1, 2, 3, 4, 5, 6, 7, 8

INT_NAMES = ["ia", "ib", "ic", "id_", "ie", "i_f", "ig", "n1", "n2", "k9", "cnt", "idx"]
REAL_NAMES = ["ra", "rb", "rc", "rd", "x1", "x2", "yy", "zr", "q_7", "tot2", "acc", "u"]
POS_NAMES = ["pa", "pb", "pc", "pd", "p1", "p2"]
STR_NAMES = ["sa$", "sb$", "sc_$", "nm$", "tx$", "s1$", "w$"]
LOOP_NAMES = ["i", "j", "k", "l", "ii", "jj", "kk", "lp1", "lp2", "lp3"]
CNT_NAMES = ["w1", "w2", "w3", "w4", "c1", "c2", "c3", "c4", "c5", "c6"]
IARR_NAMES = ["av", "bv"]
RARR_NAMES = ["xv", "yv"]
SARR_NAMES = ["sv$", "tv$"]
STR_ALPHABET = "abcdefghijklmnopqrstuvwxyzABCDEFGHIJKLMNOPQRSTUVWXYZ0123456789      _.,:()+-*/<>=!?@%&|'^~"

for _n in INT_NAMES + REAL_NAMES + POS_NAMES + STR_NAMES + LOOP_NAMES + CNT_NAMES + IARR_NAMES + RARR_NAMES + SARR_NAMES:
    assert _n.upper() not in RESERVED and _n.upper() not in KEYWORDS, _n


def _fmt_num(x):
    r = repr(float(x))
    if r.endswith(".0"):
        r = r[:-2]
    return r


def static_inexact(ast):
    """may the value of this numeric expression differ between conforming implementations (carry a bound e > 0)?"""
    t = ast[0]
    if t == "num":
        return False
    if t == "var":
        n = re.sub(r"_s\d+$", "", ast[1].lower())
        return not (n in INT_NAMES or n in LOOP_NAMES or n in CNT_NAMES)
    if t == "arr":
        return ast[1].lower() not in IARR_NAMES
    if t in ("par", "neg", "pos"):
        return static_inexact(ast[1])
    if t == "bin":
        if ast[1] == "MOD":
            return True
        return static_inexact(ast[2]) or static_inexact(ast[3])
    if t == "pow":
        return True
    if t in ("rel", "log", "not"):
        return False
    if t == "call":
        f = ast[1]
        if f in ("FLOOR", "CEIL", "LEN", "INSTR", "ASC", "SGN", "EXISTS"):
            return False
        if f == "VAL":
            a = ast[2][0]
            return not (a[0] == "str" or (a[0] == "call" and a[1] == "STR$"))
        if f in ("ABS", "SQR", "SQRT"):
            return static_inexact(ast[2][0])
        return True
    return True


def expr_inexact(txt):
    _, toks = tokenize_line("1 " + txt)
    return static_inexact(Parser(toks, 1).expr())


class Gen(object):
    def __init__(self, rnd, size):
        self.r = rnd
        self.size = size                   # rough number of statements in the main block
        self.avoided = {}
        self.frozen = set()
        self.loopvars = {}                 # name -> (lo, hi, isint) of active FOR variables
        self.counters = {}                 # active WHILE / GOTO-loop counters: name -> (lo, hi)
        self.used_loop = set()
        self.used_cnt = set()
        self.labels = 0
        self.mult = 1
        self.reads = 0
        self.punches = 0
        self.cost = 0
        self.iarr = {}
        self.rarr = {}
        self.sarr = {}
        self.store_keys = [(1,), (2,), (3,), (1, 1), (1, 2), (2, 5, 1)]
        # computed, non-integer subscripts: every one lies strictly inside its own pair of neighbouring integers, no two
        # share a neighbour, so PUT / GET / EXISTS with the same expression must meet whatever the conversion is
        self.float_keys = ["10.6", "1.3 * 10 - 0.4", "14.5", "33 / 2", "18.6", "2.6 * 8", "0.29*100", "22.4", "24.5 - 1e-9", "2, 7.6", "60.4, 1", "2.6*3, 30.5"]
        self.nsubs = 0
        self.sub_cost = {}
        self.sub_label = {}
        self.cur_sub = None
        self.features = set()
        self.ncall = 0
        self.nest = []                     # enclosing loops of the current routine: dicts kind / var / range / exit label
        self.sfx = ""                      # loop variables and counters are private to a routine (main / each subroutine)

    # -- helpers
    def avoid(self, what):
        self.avoided[what] = self.avoided.get(what, 0) + 1

    # Hypothesis-backed random generators favour small integers (and "simple" floats such as 0.0).  Choices between
    # alternatives are therefore rotated by a call counter, so that no alternative is systematically preferred.
    def sel(self, n):
        self.ncall += 1
        return (self.r.randint(0, n) + self.ncall * 7) % (n + 1)

    def chance(self, p):
        return self.sel(999) < p * 1000

    def pick(self, seq):
        return seq[self.sel(len(seq) - 1)]

    def kw(self, w):
        m = self.sel(9)
        if m < 6:
            return w
        if m < 8:
            return w.lower()
        if m == 8:
            return w.capitalize()
        return "".join(c.lower() if self.r.randint(0, 1) else c for c in w)

    def name(self, n):
        m = self.sel(7)
        if m < 5:
            return n
        if m == 5:
            return n.upper()
        return "".join(c.upper() if self.r.randint(0, 1) else c for c in n)

    def label(self):
        self.labels += 1
        return "@L%d@" % self.labels

    def paren(self, nd):
        return Nd("(" + nd.txt + ")", P_ATOM, nd.lo, nd.hi, nd.isint, nd.typ, nd.lmin, nd.lmax)

    def at(self, nd, prec):
        """text of nd usable where an operand of at least precedence `prec` is required"""
        if nd.prec < prec:
            return "(" + nd.txt + ")"
        if nd.prec < P_ATOM and self.chance(0.08):
            return "(" + nd.txt + ")"
        return nd.txt

    def sp(self, op):
        if op.isalpha():
            return " " + self.kw(op) + " "
        m = self.sel(5)
        return " " + op + " " if m < 4 else op

    # -- literals
    def int_lit(self, lo, hi):
        v = self.r.randint(lo, hi)
        if v < 0:
            return Nd("-" + str(-v), P_NEG, v, v, True)
        t = str(v)
        m = self.sel(11)
        if m == 0:
            t = t + "."
        elif m == 1:
            t = t + ".0"
        elif m == 2 and v % 10 == 0 and v > 0:
            t = "%de1" % (v // 10)
        return Nd(t, P_ATOM, v, v, True)

    def pos_lit(self):
        m = self.sel(6)
        if m == 0:
            v = self.r.randint(1, 9)
            return Nd(str(v), P_ATOM, v, v, True)
        if m == 1:
            v = self.r.randint(1, 99) / 4.0
        elif m == 2:
            v = self.r.randint(1, 999) / 100.0
        elif m == 3:
            v = float("%de%d" % (self.r.randint(1, 99), self.r.randint(-3, 3)))
        elif m == 4:
            v = self.r.randint(1, 9999) / 1000.0
        else:
            v = round(math.exp(self.r.randint(0, 8000) / 1000.0 - 4), self.r.randint(1, 6))
            if v <= 0:
                v = 0.5
        t = _fmt_num(v)
        k = self.sel(9)
        if k == 0 and t.startswith("0."):
            t = t[1:]
        elif k == 1 and "e" not in t:
            t = ("%.3e" % v)
            v = float(t)
            if self.chance(0.5):
                t = t.upper()
        elif k == 2 and "e" in t:
            t = t.replace("e-0", "e-").replace("e+0", "e+")
        v = float(t)
        return Nd(t, P_ATOM, v, v, v == math.floor(v) and v < 1e15)

    def real_lit(self):
        p = self.pos_lit()
        if self.chance(0.3):
            return Nd("-" + p.txt, P_NEG, -p.hi, -p.lo, p.isint)
        if self.chance(0.05):
            return Nd("0", P_ATOM, 0.0, 0.0, True)
        return p

    def str_lit(self, minlen=0, maxlen=12):
        n = self.r.randint(minlen, maxlen)
        s = "".join(STR_ALPHABET[self.r.randint(0, len(STR_ALPHABET) - 1)] for _ in range(n))
        return Nd('"' + s + '"', P_ATOM, typ="s", lmin=n, lmax=n, op=("lit", s))

    # -- interval helpers
    @staticmethod
    def corners(f, a, b):
        vs = [f(x, y) for x in (a.lo, a.hi) for y in (b.lo, b.hi)]
        return min(vs), max(vs)

    def binary(self, op, a, b, prec):
        """left-associative binary node; b gets parentheses when it has the same precedence"""
        lt = self.at(a, prec)
        rt = self.at(b, prec + 1)
        if op == "-" and rt.startswith("-"):
            rt = " " + rt
        if op == "+" and rt.startswith("+"):
            rt = " " + rt
        return lt + self.sp(op) + rt

    def bound(self, nd):
        """keep magnitudes moderate (finite by construction)"""
        m = max(abs(nd.lo), abs(nd.hi))
        if nd.isint and m > 1e9:
            self.avoid("fit_integer_magnitude")
            return self.mod_fit(nd, self.r.randint(2, 1000))
        if m > 1e12:
            self.avoid("fit_real_magnitude")
            return Nd(self.kw("ARCTAN") + "(" + nd.txt + ")", P_ATOM, -1.5708, 1.5708)
        return nd

    def clean(self, nd):
        """an integer expression that may carry rounding noise (MOD, ^, library functions) is rounded before it is
        used where an exact integer matters (comparison, integer conversion, MOD, FLOOR/CEIL, text)"""
        if nd.typ != "n" or not expr_inexact(nd.txt):
            return nd
        self.avoid("inexact_integer_rounded_before_exact_use")
        if self.chance(0.8):
            return Nd(self.kw("FLOOR") + "(" + self.at(nd, P_ADD) + self.sp("+") + "0.5)", P_ATOM, nd.lo, nd.hi, True)
        return Nd(self.kw("CEIL") + "(" + self.at(nd, P_ADD) + self.sp("-") + "0.5)", P_ATOM, nd.lo, nd.hi, True)

    def mod_fit(self, nd, m):
        nd = self.clean(nd)
        self.avoid("mod_operands_integer_by_construction")
        lo = 0 if nd.lo >= 0 else -(m - 1)
        hi = 0 if nd.hi <= 0 else m - 1
        return Nd("(" + self.at(nd, P_MUL + 1) + self.sp("MOD") + str(m) + ")", P_ATOM, lo, hi, True)

    def fit_abs(self, nd, limit):
        """real expression with |value| <= limit"""
        if max(abs(nd.lo), abs(nd.hi)) <= limit:
            return nd
        self.avoid("fit_argument_range")
        if limit >= 1.5708:
            return Nd(self.kw("ARCTAN") + "(" + nd.txt + ")", P_ATOM, -1.5708, 1.5708)
        return Nd(self.kw("ARCTAN") + "(" + nd.txt + ")" + self.sp("*") + _fmt_num(limit / 2), P_MUL, -limit, limit)

    def fit_int(self, nd, lo, hi):
        """integer expression with value in [lo, hi]"""
        if nd.lo >= lo and nd.hi <= hi:
            return nd
        self.avoid("fit_integer_range")
        m = hi - lo + 1
        if nd.lo < 0:
            nd = Nd(self.kw("ABS") + "(" + nd.txt + ")", P_ATOM, 0, max(abs(nd.lo), abs(nd.hi)), True)
        if nd.hi > m - 1:
            nd = self.mod_fit(nd, m)
        if lo == 0:
            return nd
        return Nd(str(lo) + self.sp("+") + self.at(nd, P_MUL), P_ADD, lo + nd.lo, lo + nd.hi, True) if lo > 0 else \
            Nd(self.at(nd, P_ADD) + self.sp("-") + str(-lo), P_ADD, lo + nd.lo, lo + nd.hi, True)

    # -- numeric expressions
    def int_atom(self):
        c = self.sel(9)
        if c < 3:
            return self.int_lit(0, self.pick([3, 9, 20, 100]))
        if c < 5 and (self.loopvars or self.counters):
            cands = [(n, v) for n, v in self.loopvars.items() if v[2]] + [(n, (v[0], v[1], True)) for n, v in self.counters.items()]
            if cands:
                n, v = self.pick(cands)
                return Nd(self.name(n), P_ATOM, v[0], v[1], True)
        if c < 8:
            return Nd(self.name(self.pick(INT_NAMES)), P_ATOM, -1e6, 1e6, True)
        if c == 8 and self.iarr:
            a = self.pick(sorted(self.iarr))
            return Nd(self.name(a) + "(" + self.subscript(self.iarr[a]) + ")", P_ATOM, -1e6, 1e6, True)
        return self.int_lit(-20, 20)

    def int_expr(self, d):
        if d <= 0:
            return self.int_atom()
        c = self.sel(19)
        if c < 3:
            return self.int_atom()
        if c < 6:
            a, b = self.int_expr(d - 1), self.int_expr(d - 1)
            op = self.pick(["+", "-"])
            lo, hi = (a.lo + b.lo, a.hi + b.hi) if op == "+" else (a.lo - b.hi, a.hi - b.lo)
            return self.bound(Nd(self.binary(op, a, b, P_ADD), P_ADD, lo, hi, True))
        if c < 8:
            a, b = self.int_expr(d - 1), self.int_expr(d - 1)
            if a.op == "mod" or b.op == "mod":
                self.avoid("paren_mod_next_to_muldiv")
                a = self.paren(a) if a.op == "mod" else a
                b = self.paren(b) if b.op == "mod" else b
            lo, hi = self.corners(lambda x, y: x * y, a, b)
            return self.bound(Nd(self.binary("*", a, b, P_MUL), P_MUL, lo, hi, True))
        if c < 10:
            a = self.clean(self.int_expr(d - 1))
            m = self.r.randint(1, 12) if self.chance(0.7) else self.r.randint(13, 1000)
            if self.chance(0.2):
                # negative divisor: remainder keeps the sign of the dividend
                nd = Nd(self.at(a, P_MUL + 1) + self.sp("MOD") + "-" + str(m), P_MUL, 0 if a.lo >= 0 else -(m - 1), 0 if a.hi <= 0 else m - 1, True, op="mod")
            else:
                nd = Nd(self.at(a, P_MUL + 1) + self.sp("MOD") + str(m), P_MUL, 0 if a.lo >= 0 else -(m - 1), 0 if a.hi <= 0 else m - 1, True, op="mod")
            self.avoid("mod_operands_integer_by_construction")
            return nd
        if c == 10:
            a = self.int_expr(d - 1)
            return Nd(self.kw("ABS") + "(" + a.txt + ")", P_ATOM, 0 if a.lo <= 0 <= a.hi else min(abs(a.lo), abs(a.hi)), max(abs(a.lo), abs(a.hi)), True)
        if c == 11:
            a = self.int_expr(d - 1)
            if a.prec == P_POW:
                self.avoid("paren_unary_minus_before_power")
            return Nd("-" + self.at(a, P_POW + 1 if a.prec == P_POW else P_NEG + 1), P_NEG, -a.hi, -a.lo, True)
        if c == 12:
            a = self.fit_abs(self.real_expr(d - 1), 1e6)
            if a.isint:
                a = self.clean(a)
            elif expr_inexact(a.txt):
                # an inexact value may sit on an integer (5 MOD 3 / 2 ...): move it off before truncating
                self.avoid("floor_ceil_of_inexact_value_offset")
                c_ = self.pick(["0.5", "0.25", "0.3", ".7"])
                a = Nd(self.at(a, P_ADD) + self.sp("+") + c_, P_ADD, a.lo, a.hi + 1)
            f = self.pick(["FLOOR", "CEIL"])
            return Nd(self.kw(f) + "(" + a.txt + ")", P_ATOM, math.floor(a.lo), math.ceil(a.hi), True)
        if c == 13:
            s = self.str_expr(d - 1)
            k = self.sel(2)
            if k == 0:
                return Nd(self.kw("LEN") + "(" + s.txt + ")", P_ATOM, s.lmin, s.lmax, True)
            if k == 1:
                pat = self.str_lit(1, 2)
                return Nd(self.kw("INSTR") + "(" + self.sarg(s).txt + "," + pat.txt + ")", P_ATOM, 0, max(s.lmax, 0), True)
            if s.lmin >= 1:
                return Nd(self.kw("ASC") + "(" + s.txt + ")", P_ATOM, 32, 126, True)
            self.avoid("asc_of_possibly_empty_string")
            return Nd(self.kw("ASC") + "(" + self.binary("+", s, self.str_lit(1, 1), P_ADD) + ")", P_ATOM, 32, 126, True)
        if c == 14:
            return self.relation(d - 1)
        if c == 15:
            return self.logical(d - 1)
        if c == 16:
            p = self.pos_expr(d - 1)
            self.avoid("sgn_argument_nonzero_by_construction")
            if self.chance(0.5):
                return Nd(self.kw("SGN") + "(" + p.txt + ")", P_ATOM, 1, 1, True)
            return Nd(self.kw("SGN") + "(-" + self.at(p, P_POW + 1) + ")", P_ATOM, -1, -1, True)
        if c == 17:
            return Nd(self.kw("EXISTS") + "(" + self.key_text() + ")", P_ATOM, 0, 1, True)
        if c == 18:
            a = self.clean(self.fit_int(self.int_expr(d - 1), -99999, 99999))
            self.avoid("str_layout_checked_through_val_or_trim")
            return Nd(self.kw("VAL") + "(" + self.kw("STR$") + "(" + a.txt + "))", P_ATOM, a.lo, a.hi, True)
        return self.int_atom()

    def relation(self, d):
        op = self.pick(["<", ">", "<=", ">=", "=", "<>"])
        c = self.sel(9)
        if c < 2:
            a, b = self.str_expr(d), self.str_expr(d)
            return Nd(self.at(a, P_ADD) + self.sp(op) + self.at(b, P_ADD), P_REL, 0, 1, True)
        if op in ("=", "<>") or c < 6:
            a, b = self.int_expr(d), self.int_expr(d)
        else:
            a, b = self.real_expr(d), self.real_expr(d)
        if a.isint:
            a = self.clean(a)
        if b.isint:
            b = self.clean(b)
        if c == 9:
            # chained relation: (a < b) < c, left associative
            e = self.int_lit(0, 1)
            op2 = self.pick(["<", ">", "=", "<>", "<=", ">="])
            return Nd(self.at(a, P_ADD) + self.sp(op) + self.at(b, P_ADD) + self.sp(op2) + e.txt, P_REL, 0, 1, True)
        return Nd(self.at(a, P_ADD) + self.sp(op) + self.at(b, P_ADD), P_REL, 0, 1, True)

    def logical(self, d):
        if self.chance(0.1):
            # NOT only where the bitwise and the logical reading agree for every operand value: operands 0 / -1
            # (recorded finding: NOT of a true relation, value 1, is -2 = true)
            self.avoid("not_only_on_operands_0_or_minus_1")
            r_ = self.relation(d)
            return Nd("(" + self.kw("NOT") + " (-(" + r_.txt + ")))", P_ATOM, -1, 0, True)
        op = self.pick(["AND", "AND", "OR", "OR", "XOR"])
        if self.chance(0.6):
            a, b = self.relation(d), self.relation(d)
        else:
            a = self.clean(self.fit_int(self.int_expr(d), -2 ** 20, 2 ** 20))
            b = self.clean(self.fit_int(self.int_expr(d), -2 ** 20, 2 ** 20))
        self.avoid("logical_operands_integer_by_construction")
        prec = P_AND if op == "AND" else P_OR
        lt = self.at(a, prec)
        if prec == P_OR and a.op in ("OR", "XOR") and a.op != op and a.prec == P_OR:
            self.avoid("paren_or_xor_mixed")
            lt = "(" + a.txt + ")"
        rt = self.at(b, prec + 1)
        m = 2 ** 21
        if a.lo >= 0 and b.lo >= 0:
            lo, hi = 0, m
        else:
            lo, hi = -m, m
        if a.lo >= 0 and a.hi <= 1 and b.lo >= 0 and b.hi <= 1:
            lo, hi = 0, 1
        return Nd(lt + self.sp(op) + rt, prec, lo, hi, True, op=op)

    def condition(self, d):
        c = self.sel(9)
        if c < 6:
            return self.relation(d)
        if c < 9:
            return self.logical(d)
        return self.clean(self.int_expr(d))

    def pos_expr(self, d):
        c = self.sel(13) if d > 0 else self.sel(2)
        if c < 2:
            return self.pos_lit()
        if c == 2:
            return Nd(self.name(self.pick(POS_NAMES)), P_ATOM, 1e-3, 1e6)
        if c == 3:
            a = self.fit_abs(self.real_expr(d - 1), 8.0)
            return Nd(self.kw("EXP") + "(" + a.txt + ")", P_ATOM, math.exp(a.lo), math.exp(a.hi))
        if c == 4:
            a = self.pos_expr(d - 1)
            return Nd(self.kw("SQRT") + "(" + a.txt + ")", P_ATOM, math.sqrt(a.lo), math.sqrt(a.hi))
        if c == 5:
            a = self.real_expr(d - 1)
            p = self.pos_lit()
            f = self.pick(["ABS", "SQR"])
            hi = max(abs(a.lo), abs(a.hi))
            hi = hi if f == "ABS" else hi * hi
            return self.bound_pos(Nd(self.kw(f) + "(" + a.txt + ")" + self.sp("+") + p.txt, P_ADD, p.lo, hi + p.hi))
        if c == 6:
            a, b = self.pos_expr(d - 1), self.pos_expr(d - 1)
            return self.bound_pos(Nd(self.binary("*", a, b, P_MUL), P_MUL, a.lo * b.lo, a.hi * b.hi))
        if c == 7:
            a, b = self.pos_expr(d - 1), self.pos_expr(d - 1)
            self.avoid("divisor_nonzero_by_construction")
            return self.bound_pos(Nd(self.binary("/", a, b, P_MUL), P_MUL, a.lo / b.hi, a.hi / b.lo))
        if c == 8:
            a, b = self.pos_expr(d - 1), self.pos_expr(d - 1)
            return self.bound_pos(Nd(self.binary("+", a, b, P_ADD), P_ADD, a.lo + b.lo, a.hi + b.hi))
        if c == 9:
            return self.power(d - 1)
        if c == 10:
            s = self.str_expr(d - 1)
            return Nd("1" + self.sp("+") + self.kw("LEN") + "(" + s.txt + ")", P_ADD, 1 + s.lmin, 1 + s.lmax, True)
        if c == 11:
            a = self.pos_expr(d - 1)
            if expr_inexact(a.txt):
                self.avoid("floor_ceil_of_inexact_value_offset")
                a = Nd(self.at(a, P_ADD) + self.sp("+") + self.pick(["0.5", "0.25", "0.3"]), P_ADD, a.lo, a.hi + 1)
            return Nd(self.kw("CEIL") + "(" + a.txt + ")", P_ATOM, max(1.0, math.floor(a.lo)), math.ceil(a.hi) + 1, True)
        if c == 12:
            a = self.pos_expr(d - 1)
            return self.paren(a)
        return self.pos_lit()

    def bound_pos(self, nd):
        if nd.hi > 1e12 or nd.lo < 1e-12:
            self.avoid("fit_real_magnitude")
            return Nd("1" + self.sp("+") + self.kw("ABS") + "(" + self.kw("ARCTAN") + "(" + nd.txt + "))", P_ADD, 1.0, 2.5708)
        return nd

    def power(self, d):
        """a ^ b with a > 0 (or a negative literal and an integer literal exponent); never 0^x, a^b^c, -a^b"""
        self.avoid("power_base_nonzero_by_construction")
        if self.chance(0.15):
            b = self.r.randint(1, 9)
            e = self.r.randint(0, 5)
            v = float(-b) ** e
            return_neg = Nd("(-" + str(b) + ")" + self.sp("^") + str(e), P_POW, v, v, True)
            # value is exact in the reference, the engine uses exp/log: keep it a real
            return_neg.isint = False
            return return_neg if v > 0 else Nd("1" + self.sp("+") + self.kw("SQR") + "(" + return_neg.txt + ")", P_ADD, 1 + v * v, 1 + v * v)
        a = self.pos_expr(d)
        if a.hi > 1e4 or a.lo < 1e-4:
            self.avoid("fit_real_magnitude")
            a = Nd("1" + self.sp("+") + self.kw("ABS") + "(" + self.kw("ARCTAN") + "(" + a.txt + "))", P_ADD, 1.0, 2.5708)
        c = self.sel(5)
        if c < 2:
            e = self.int_lit(0, 4)
        elif c == 2:
            k = self.r.randint(1, 3)
            e = Nd("-" + str(k), P_NEG, -k, -k, True)
        elif c == 3:
            p = self.pick(["0.5", "1.5", "0.25", ".5", "2.5", "0.333"])
            e = Nd(p, P_ATOM, float(p), float(p))
        else:
            e = self.fit_abs(self.real_expr(max(d - 1, 0)), 3.0)
        if e.prec == P_POW:
            self.avoid("paren_power_chain")
        bt = self.at(a, P_POW + 1)
        if a.prec == P_NEG:
            self.avoid("paren_unary_minus_before_power")
        et = e.txt if (e.prec >= P_ATOM or (e.prec == P_NEG and e.txt.startswith("-") and e.txt[1:].replace(".", "").isdigit())) else "(" + e.txt + ")"
        vs = [x ** y for x in (a.lo, a.hi) for y in (e.lo, e.hi)]
        return Nd(bt + self.sp("^") + et, P_POW, min(vs), max(vs))

    def neg_power(self):
        """negative base with an integer exponent of either sign and parity: literal, integer variable expression or a
        loop variable running through negative values; the sign of the result is visible (never 0^x, a^b^c, -a^b)"""
        self.avoid("power_base_nonzero_by_construction")
        c = self.sel(5)
        if c < 3:
            b = self.r.randint(1, 9)
            bt, bmax, bmin = "(-" + str(b) + ")", float(b), float(b)
        elif c < 5:
            b = self.r.randint(1, 9) + 0.5
            bt, bmax, bmin = "(-" + _fmt_num(b) + ")", b, b
        else:
            bt, bmax, bmin = "(-" + self.name(self.pick(POS_NAMES)) + ")", 1e6, 1e-3
        c = self.sel(5)
        if bmax > 100:
            e = self.pick([-2, -1, 1, 2, 3])
            et, elo, ehi = (str(e) if e > 0 else self.pick(["-%d", "(-%d)"]) % -e), e, e
        elif c < 3:
            e = self.r.randint(-6, 7)
            et, elo, ehi = (str(e) if e >= 0 else self.pick(["-%d", "(-%d)"]) % -e), e, e
        else:
            cands = [(n, v) for n, v in self.loopvars.items() if v[2] and v[0] >= -8 and v[1] <= 8] + \
                    [(n, (v[0], v[1], True)) for n, v in self.counters.items() if v[1] <= 8]
            if cands and c < 5:
                n, v = self.pick(cands)
                et, elo, ehi = self.name(n), v[0], v[1]
            else:
                x = self.clean(self.fit_int(self.int_expr(1), 0, 8))
                k = self.r.randint(0, 5)
                et, elo, ehi = "(" + self.at(x, P_ADD) + self.sp("-") + str(k) + ")", -k, 8 - k
        m = max(abs(elo), abs(ehi))
        big = max(bmax ** m, (1.0 / bmin) ** m)
        return self.bound(Nd(bt + self.sp("^") + et, P_POW, -big, big))

    def real_atom(self):
        c = self.sel(9)
        if c < 3:
            return self.real_lit()
        if c < 6:
            return Nd(self.name(self.pick(REAL_NAMES)), P_ATOM, -1e6, 1e6)
        if c == 6 and self.rarr:
            a = self.pick(sorted(self.rarr))
            return Nd(self.name(a) + "(" + self.subscript(self.rarr[a]) + ")", P_ATOM, -1e6, 1e6)
        if c == 7:
            return Nd(self.kw("GET") + "(" + self.key_text() + ")", P_ATOM, -1e6, 1e6)
        if c == 8 and self.loopvars:
            n = self.pick(sorted(self.loopvars))
            v = self.loopvars[n]
            return Nd(self.name(n), P_ATOM, v[0], v[1], v[2])
        return self.int_atom()

    def real_expr(self, d):
        if d <= 0:
            return self.real_atom()
        c = self.sel(23)
        if c < 3:
            return self.real_atom()
        if c < 5:
            return self.int_expr(d - 1)
        if c < 7:
            return self.pos_expr(d - 1)
        if c < 10:
            a, b = self.real_expr(d - 1), self.real_expr(d - 1)
            op = self.pick(["+", "-"])
            lo, hi = (a.lo + b.lo, a.hi + b.hi) if op == "+" else (a.lo - b.hi, a.hi - b.lo)
            return self.bound(Nd(self.binary(op, a, b, P_ADD), P_ADD, lo, hi, a.isint and b.isint))
        if c < 12:
            a, b = self.real_expr(d - 1), self.real_expr(d - 1)
            if a.op == "mod" or b.op == "mod":
                self.avoid("paren_mod_next_to_muldiv")
                a = self.paren(a) if a.op == "mod" else a
                b = self.paren(b) if b.op == "mod" else b
            lo, hi = self.corners(lambda x, y: x * y, a, b)
            return self.bound(Nd(self.binary("*", a, b, P_MUL), P_MUL, lo, hi, a.isint and b.isint))
        if c < 14:
            a = self.real_expr(d - 1)
            b = self.pos_expr(d - 1)
            if a.op == "mod":
                self.avoid("paren_mod_next_to_muldiv")
                a = self.paren(a)
            self.avoid("divisor_nonzero_by_construction")
            if self.chance(0.2):
                b = Nd("-" + self.at(b, P_POW + 1), P_NEG, -b.hi, -b.lo)
            vs = [x / y for x in (a.lo, a.hi) for y in (b.lo, b.hi)]
            return self.bound(Nd(self.binary("/", a, b, P_MUL), P_MUL, min(vs), max(vs)))
        if c == 14:
            a = self.real_expr(d - 1)
            if a.prec == P_POW:
                self.avoid("paren_unary_minus_before_power")
            if a.prec == P_NEG:
                return self.paren(a)
            return Nd("-" + self.at(a, P_POW + 1 if a.prec == P_POW else P_NEG + 1), P_NEG, -a.hi, -a.lo, a.isint)
        if c < 17:
            f = self.pick(["SIN", "COS", "ARCTAN", "TAN"])
            a = self.real_expr(d - 1)
            if f == "TAN":
                a = self.fit_abs(a, 1.4)
                return Nd(self.kw(f) + "(" + a.txt + ")", P_ATOM, -5.8, 5.8)
            if f != "ARCTAN":
                a = self.fit_abs(a, 1e6)
            return Nd(self.kw(f) + "(" + a.txt + ")", P_ATOM, -1.5708 if f == "ARCTAN" else -1.0, 1.5708 if f == "ARCTAN" else 1.0)
        if c == 17:
            p = self.pos_expr(d - 1)
            self.avoid("log_sqrt_argument_positive_by_construction")
            f = self.pick(["LOG", "LOG10"])
            g = math.log if f == "LOG" else math.log10
            return Nd(self.kw(f) + "(" + p.txt + ")", P_ATOM, g(p.lo), g(p.hi))
        if c == 18:
            a = self.real_expr(d - 1)
            f = self.pick(["ABS", "SQR"])
            hi = max(abs(a.lo), abs(a.hi))
            return self.bound(Nd(self.kw(f) + "(" + a.txt + ")", P_ATOM, 0.0, hi if f == "ABS" else hi * hi, a.isint))
        if c == 19:
            if self.chance(0.45):
                return self.neg_power()
            return self.power(d - 1)
        if c == 20:
            # VAL of clean numeric text
            if self.chance(0.5):
                p = self.pos_lit()
                pad = " " * self.r.randint(0, 2)
                return Nd(self.kw("VAL") + '("' + pad + p.txt + '")', P_ATOM, p.lo, p.hi)
            a = self.plus_zero(self.fit_abs(self.real_expr(d - 1), 1e5))
            dd = self.r.randint(0, 6) if not expr_inexact(a.txt) else self.r.randint(4, 8)
            w = self.r.randint(0, 14)
            f = self.pick(["STR_F$", "STR_E$"])
            m = max(abs(a.lo), abs(a.hi)) + 1
            return Nd(self.kw("VAL") + "(" + self.kw(f) + "(" + a.txt + ", %d, %d))" % (w, dd), P_ATOM, -2 * m, 2 * m)
        if c == 21:
            a = self.real_expr(d - 1)
            return self.paren(a)
        if c == 22:
            return self.relation(d - 1)
        return self.real_atom()

    def num_expr(self, d):
        c = self.sel(9)
        if c < 3:
            return self.int_expr(d)
        if c < 5:
            return self.pos_expr(d)
        return self.real_expr(d)

    def subscript(self, n):
        """subscript text valid for an array DIMensioned (n): 0..n"""
        c = self.sel(5)
        if c < 2:
            return str(self.r.randint(0, n))
        cands = [(nm, v) for nm, v in self.loopvars.items() if v[2] and v[0] >= 0 and v[1] <= n] + \
                [(nm, (v[0], v[1], True)) for nm, v in self.counters.items() if v[0] >= 0 and v[1] <= n]
        if c < 4 and cands:
            return self.name(self.pick(cands)[0])
        self.avoid("subscript_in_range_by_construction")
        return self.clean(self.fit_int(self.int_expr(1), 0, n)).txt

    def plus_zero(self, a):
        """x + 0 is x for every double except that -0 becomes +0: the sign of a zero never reaches a text"""
        if a.lo > 0 or a.hi < 0:
            return a
        self.avoid("zero_sign_normalised_before_text")
        return Nd(self.at(a, P_ADD) + self.sp("+") + "0", P_ADD, a.lo, a.hi, a.isint)

    # -- string expressions
    def sarg(self, s):
        """argument of LTRIM/RTRIM/TRIM/INSTR: a concatenation is parenthesised (recorded finding)"""
        if s.prec < P_ATOM:
            self.avoid("paren_concatenation_in_trim_instr_argument")
            return self.paren(s)
        return s

    def str_atom(self):
        c = self.sel(9)
        if c < 4:
            return self.str_lit(0, self.pick([1, 3, 8, 14]))
        if c < 8:
            return Nd(self.name(self.pick(STR_NAMES)), P_ATOM, typ="s", lmin=0, lmax=40)
        if c == 8 and self.sarr:
            a = self.pick(sorted(self.sarr))
            return Nd(self.name(a) + "(" + self.subscript(self.sarr[a]) + ")", P_ATOM, typ="s", lmin=0, lmax=40)
        return self.str_lit(1, 5)

    def str_expr(self, d):
        if d <= 0:
            return self.str_atom()
        c = self.sel(15)
        if c < 3:
            return self.str_atom()
        if c < 5:
            a, b = self.str_expr(d - 1), self.str_expr(d - 1)
            if a.lmax + b.lmax > 100:
                return a
            return Nd(self.binary("+", a, b, P_ADD), P_ADD, typ="s", lmin=a.lmin + b.lmin, lmax=a.lmax + b.lmax)
        if c < 7:
            s = self.str_expr(d - 1)
            self.avoid("mid_start_at_least_1_by_construction")
            if s.op and s.op[0] == "lit" and self.chance(0.6):
                n = len(s.op[1])
                p = self.r.randint(1, n + 1) if self.chance(0.7) else n + self.r.randint(2, 6)     # beyond the end: ""
                if self.chance(0.5):
                    return Nd(self.kw("MID$") + "(" + s.txt + ", %d)" % p, P_ATOM, typ="s", lmin=max(n - p + 1, 0), lmax=max(n - p + 1, 0))
                m = self.r.randint(0, n + 2)
                k = max(0, min(m, n - p + 1))
                return Nd(self.kw("MID$") + "(" + s.txt + ", %d, %d)" % (p, m), P_ATOM, typ="s", lmin=k, lmax=k)
            # computed start 1 .. LEN+1 ; the string expression is evaluated twice, so it must be a variable or literal
            if s.prec != P_ATOM or "(" in s.txt:
                s = self.str_atom()
            ln_ = self.kw("LEN") + "(" + s.txt + ")"
            k = self.sel(5)
            if k == 4:
                start = ln_ + self.sp("+") + str(self.r.randint(2, 9))             # always beyond the end
            elif k == 5:
                start = "1" + self.sp("+") + ln_ + self.sp("+") + self.at(self.clean(self.fit_int(self.int_expr(1), 0, 3)), P_MUL)
            elif k == 0:
                i = self.clean(self.fit_int(self.int_expr(1), 0, 10 ** 6))
                start = "1" + self.sp("+") + self.kw("FLOOR") + "((" + self.at(i, P_MUL + 1) + self.sp("MOD") + "(" + ln_ + self.sp("+") + "1))" + self.sp("+") + "0.5)"
            elif k == 1:
                start = "1" + self.sp("+") + ln_ + self.sp("*") + "(" + self.relation(0).txt + ")"
            elif k == 2:
                start = "1" + self.sp("+") + ln_
            else:
                start = ln_ + self.sp("+") + "(" + ln_ + self.sp("=") + "0)"
            if self.chance(0.5):
                return Nd(self.kw("MID$") + "(" + s.txt + ", " + start + ")", P_ATOM, typ="s", lmin=0, lmax=s.lmax)
            m = self.clean(self.fit_int(self.int_expr(1), 0, 12))
            return Nd(self.kw("MID$") + "(" + s.txt + ", " + start + ", " + m.txt + ")", P_ATOM, typ="s", lmin=0, lmax=min(s.lmax, 12))
        if c == 7:
            if self.chance(0.5):
                k = self.pick([x for x in range(32, 127)])
                return Nd(self.kw("CHR$") + "(%d)" % k, P_ATOM, typ="s", lmin=1, lmax=1)
            self.avoid("chr_code_printable_by_construction")
            i = self.clean(self.fit_int(self.int_expr(1), 0, 25))
            return Nd(self.kw("CHR$") + "(" + self.pick(["65", "97"]) + self.sp("+") + self.at(i, P_MUL) + ")", P_ATOM, typ="s", lmin=1, lmax=1)
        if c < 10:
            s = self.sarg(self.str_expr(d - 1))
            f = self.pick(["LTRIM", "RTRIM", "TRIM"])
            return Nd(self.kw(f) + "(" + s.txt + ")", P_ATOM, typ="s", lmin=0, lmax=s.lmax)
        if c == 10:
            s = self.str_expr(d - 1)
            if self.chance(0.6):
                w = self.r.randint(0, 30)
                return Nd(self.kw("PAD") + "(" + s.txt + ", %d)" % w, P_ATOM, typ="s", lmin=max(s.lmin, w), lmax=max(s.lmax, w))
            w = self.clean(self.fit_int(self.int_expr(1), 0, 30))
            return Nd(self.kw("PAD") + "(" + s.txt + ", " + w.txt + ")", P_ATOM, typ="s", lmin=s.lmin, lmax=max(s.lmax, 30))
        if c < 13:
            a = self.plus_zero(self.fit_abs(self.real_expr(d - 1), 1e6))
            f = self.pick(["STR_F$", "STR_E$"])
            w = self.r.randint(0, 16)
            dd = self.r.randint(0, 8)
            if dd < 4 and expr_inexact(a.txt):
                self.avoid("format_decimals_raised_for_inexact_value")
                dd = self.r.randint(4, 9)
            return Nd(self.kw(f) + "(" + a.txt + ", %d, %d)" % (w, dd), P_ATOM, typ="s", lmin=1, lmax=max(w, 30))
        if c == 13:
            a = self.plus_zero(self.clean(self.fit_int(self.int_expr(d - 1), -99999999, 99999999)))
            self.avoid("str_layout_checked_through_val_or_trim")
            f = self.pick(["TRIM", "LTRIM"])
            return Nd(self.kw(f) + "(" + self.kw("STR$") + "(" + a.txt + "))", P_ATOM, typ="s", lmin=1, lmax=10)
        if c == 14:
            return self.paren(self.str_expr(d - 1))
        return self.str_atom()

    # -- statements: every method returns a list of line items  [label or None, text]
    def st_assign(self, d):
        c = self.sel(11)
        let = self.kw("LET") + " " if self.chance(0.15) else ""
        eq = self.pick([" = ", " = ", "=", " =", "= "])
        if c < 3:
            cands = [n for n in INT_NAMES if n not in self.frozen]
            e = self.fit_int_var(self.int_expr(d))
            return let + self.name(self.pick(cands)) + eq + e.txt
        if c < 6:
            e = self.fit_real_var(self.num_expr(d))
            return let + self.name(self.pick(REAL_NAMES)) + eq + e.txt
        if c == 6:
            e = self.pos_expr(d)
            if e.lo < 1e-3 or e.hi > 1e6:
                self.avoid("fit_real_magnitude")
                e = Nd("0.5" + self.sp("+") + self.kw("ABS") + "(" + self.kw("ARCTAN") + "(" + e.txt + "))", P_ADD, 0.5, 2.1)
            return let + self.name(self.pick(POS_NAMES)) + eq + e.txt
        if c < 9:
            e = self.str_expr(d)
            if e.lmax > 40:
                e = Nd(self.kw("MID$") + "(" + e.txt + ", 1, 40)", P_ATOM, typ="s", lmin=0, lmax=40)
            if c == 8 and self.sarr:
                a = self.pick(sorted(self.sarr))
                return let + self.name(a) + "(" + self.subscript(self.sarr[a]) + ")" + eq + e.txt
            return let + self.name(self.pick(STR_NAMES)) + eq + e.txt
        if c == 9 and self.iarr:
            a = self.pick(sorted(self.iarr))
            e = self.fit_int_var(self.int_expr(d))
            return let + self.name(a) + "(" + self.subscript(self.iarr[a]) + ")" + eq + e.txt
        if c == 10 and self.rarr:
            a = self.pick(sorted(self.rarr))
            e = self.fit_real_var(self.num_expr(d))
            return let + self.name(a) + "(" + self.subscript(self.rarr[a]) + ")" + eq + e.txt
        e = self.fit_real_var(self.num_expr(d))
        return let + self.name(self.pick(REAL_NAMES)) + eq + e.txt

    def fit_int_var(self, e):
        if e.lo < -1e6 or e.hi > 1e6:
            e = self.mod_fit(e, self.r.randint(2, 1000))
        return self.clean(e)

    def fit_real_var(self, e):
        if e.lo < -1e6 or e.hi > 1e6:
            self.avoid("fit_real_magnitude")
            return Nd("1000" + self.sp("*") + self.kw("ARCTAN") + "(" + e.txt + ")", P_MUL, -1571, 1571)
        return e

    def st_punch(self, d):
        n = self.pick([1, 1, 2, 2, 3, 4])
        if self.punches + n * self.mult > 400:
            return self.st_assign(d)
        items = []
        for _ in range(n):
            c = self.sel(9)
            if self.chance(0.04):
                items.append(self.huge())
            elif c < 3:
                items.append(self.int_expr(d).txt)
            elif c < 7:
                items.append(self.num_expr(d).txt)
            else:
                items.append(self.str_expr(d).txt)
        self.punches += n * self.mult
        return self.kw("PUNCH") + " " + self.pick([", ", ",", " , "]).join(items)

    def huge(self):
        """whole numbers around 1e250 (PRINT and STR$ change to exponential format there) up to 9.99e305"""
        m = self.pick(["1", "1.5", "2", "7.25", "9.99", "3", "1.000001"])
        t = m + self.pick(["e", "E", "e+"]) + str(self.r.randint(240, 305))
        if self.chance(0.3):
            t = "-" + t
        if self.chance(0.4):
            return self.kw("VAL") + "(" + self.kw("STR$") + "(" + t + "))"
        return t

    def key_text(self):
        if self.chance(0.3):
            self.features.add("store_noninteger_subscript")
            cands = [n for n, v in self.loopvars.items() if v[2] and v[0] >= -8 and v[1] <= 8] + [n for n, v in self.counters.items() if v[1] <= 8]
            if cands and self.chance(0.4):
                t = "100" + self.sp("+") + self.name(self.pick(cands)) + self.sp("*") + "2.6"
                return t if self.chance(0.7) else "3, " + t
            return self.pick(self.float_keys[:4]) if self.chance(0.6) else self.pick(self.float_keys)
        return ", ".join(str(x) for x in self.pick(self.store_keys))

    def st_put(self, d):
        e = self.fit_real_var(self.num_expr(d))
        if self.chance(0.3):
            # a value that is certainly not 0, so that a missed entry shows
            e = self.pos_expr(1)
            if e.hi > 1e6:
                e = self.pos_lit()
        return self.kw("PUT") + "(" + e.txt + ", " + self.key_text() + ")"

    def st_read(self):
        n = self.pick([1, 1, 2, 3])
        vs = []
        for _ in range(n):
            if self.rarr and self.chance(0.25):
                a = self.pick(sorted(self.rarr))
                vs.append(self.name(a) + "(" + self.subscript(self.rarr[a]) + ")")
            else:
                vs.append(self.name(self.pick(REAL_NAMES)))
        self.reads += n * self.mult
        self.features.add("read")
        return self.kw("READ") + " " + ", ".join(vs)

    def simple(self, d):
        c = self.sel(19)
        if c < 8:
            return self.st_assign(d)
        if c < 14:
            return self.st_punch(d)
        if c < 16:
            return self.st_put(d)
        if c < 18:
            return self.st_read()
        if c == 18:
            self.features.add("restore")
            return self.kw("RESTORE") if self.chance(0.5) else self.kw("RESTORE") + " @DATA%d@" % self.r.randint(0, 1)
        return self.st_assign(d)

    def simple_line(self, d):
        n = self.pick([1, 1, 1, 2, 2, 3])
        self.cost += n * self.mult
        return [None, self.pick([" : ", ":", ": "]).join(self.simple(d) for _ in range(n))]

    def if_line(self, d):
        """one-line IF cond THEN stmts [ELSE stmts]"""
        c = self.condition(d)
        t = self.pick([" : ", ": "]).join(self.simple(d) for _ in range(self.pick([1, 1, 2])))
        txt = self.kw("IF") + " " + c.txt + " " + self.kw("THEN") + " " + t
        if self.chance(0.5):
            e = self.pick([" : ", ": "]).join(self.simple(d) for _ in range(self.pick([1, 1, 2])))
            txt += " " + self.kw("ELSE") + " " + e
        self.cost += 3 * self.mult
        self.features.add("if_line")
        return [None, txt]

    def block(self, n, depth, d):
        out = []
        for _ in range(n):
            out.extend(self.stmt(depth, d))
        return out

    def stmt(self, depth, d):
        if self.nest and self.chance(0.18):
            return self.exit_stmt(d)
        if self.nest and self.cur_sub is not None and self.chance(0.05):
            # RETURN from inside loops of the subroutine: the loops end with it
            self.features.add("return_in_loop")
            return [[None, self.kw("IF") + " " + self.loop_condition(d) + " " + self.kw("THEN") + " " + self.kw("RETURN")]]
        if (self.iarr or self.rarr or self.sarr) and self.mult <= 40 and self.chance(0.07):
            return self.array_ops(d)
        if self.mult <= 40 and self.chance(0.06):
            return self.store_ops(d)
        c = self.sel(31)
        if self.mult * 4 > 3000 or depth <= 0:
            c = c % 14
        if c >= 30:
            return self.nested_exit(depth, d)
        if c < 9:
            return [self.simple_line(d)]
        if c < 13:
            return [self.if_line(d)]
        if c == 13:
            self.features.add("rem")
            return [[None, self.kw("REM") + " " + "".join(self.pick("abc xyz:()+-,0123 IF THEN NEXT") for _ in range(self.r.randint(0, 12)))]]
        if c < 17:
            return self.if_goto(depth, d)
        if c < 21:
            return self.for_loop(depth, d)
        if c < 23:
            return self.while_loop(depth, d)
        if c == 23:
            return self.goto_loop(depth, d)
        if c < 26:
            return self.gosub(depth, d)
        if c < 28:
            return self.on_jump(depth, d)
        if c == 28 and self.chance(0.15):
            self.features.add("early_end")
            return [[None, self.kw("IF") + " " + self.condition(d).txt + " " + self.kw("THEN") + " " + self.kw("END")]]
        return [self.simple_line(d)]

    def loop_condition(self, d):
        """condition that usually depends on the innermost loop's variable, so that it fires in some iteration"""
        e = self.nest[-1]
        if self.chance(0.6):
            lo, hi = e["range"]
            k = self.r.randint(int(math.floor(lo)), int(math.ceil(hi)))
            return self.name(e["var"]) + self.sp(self.pick([">=", "<=", "=", ">", "<"])) + (str(k) if k >= 0 else "-" + str(-k))
        return self.condition(d).txt

    def store_ops(self, d):
        """PUT followed by GET / EXISTS with the same (often computed, non-integer) subscripts: the stored value must
        come back"""
        self.features.add("store_roundtrip")
        free = [x + self.sfx for x in LOOP_NAMES if x + self.sfx not in self.loopvars]
        out = []
        if free and self.chance(0.4):
            v = self.pick(free)
            vn = self.name(v)
            lo, hi = self.r.randint(-3, 0), self.r.randint(1, 4)
            key = self.pick(["100" + self.sp("+") + vn + self.sp("*") + "2.6", "3, 100" + self.sp("+") + vn + self.sp("*") + "2.6", vn + self.sp("*") + "2.6" + self.sp("+") + "100"])
            head = self.kw("FOR") + " " + vn + " = %d " % lo + self.kw("TO") + " %d" % hi
            out.append([None, head + " : " + self.kw("PUT") + "(" + vn + self.sp("*") + "1.5" + self.sp("+") + "7, " + key + ") : " + self.kw("NEXT") + " " + vn])
            if self.chance(0.5):
                out.append(self.simple_line(d))
            item = self.kw("GET") + "(" + key + ")" if self.chance(0.7) else self.kw("EXISTS") + "(" + key + ")" + self.sp("+") + self.kw("GET") + "(" + key + ")"
            out.append([None, head + " : " + self.kw("PUNCH") + " " + item + " : " + self.kw("NEXT") + " " + vn])
            self.punches += (hi - lo + 1) * self.mult
            self.cost += 8 * (hi - lo + 1) * self.mult
            return out
        key = self.pick(self.float_keys) if self.chance(0.75) else ", ".join(str(x) for x in self.pick(self.store_keys))
        e = self.pos_expr(1)
        if e.hi > 1e6:
            e = self.pos_lit()
        out.append([None, self.kw("PUT") + "(" + e.txt + ", " + key + ")"])
        if self.chance(0.5):
            out.append(self.simple_line(d))
        c = self.sel(2)
        if c == 0:
            out.append([None, self.kw("PUNCH") + " " + self.kw("GET") + "(" + key + "), " + self.kw("EXISTS") + "(" + key + ")"])
            self.punches += 2 * self.mult
        elif c == 1:
            r_ = self.name(self.pick(REAL_NAMES))
            out.append([None, r_ + " = " + self.kw("GET") + "(" + key + ")" + self.sp("*") + "2 : " + self.kw("PUNCH") + " " + r_])
            self.punches += self.mult
        else:
            out.append([None, self.kw("IF") + " " + self.kw("EXISTS") + "(" + key + ") " + self.kw("THEN") + " " + self.kw("PUNCH") + " " + self.kw("GET") + "(" + key + ") " + self.kw("ELSE") + " " + self.kw("PUNCH") + ' "missing"'])
            self.punches += self.mult
        self.cost += 5 * self.mult
        return out

    def array_ops(self, d):
        """assignments whose right-hand side reads other elements of the array assigned to (fill, shift, reversal,
        prefix combination, literal indices), followed by PUNCH of the elements"""
        kinds = [k for k, t in (("i", self.iarr), ("r", self.rarr), ("s", self.sarr), ("s", self.sarr)) if t]
        kind = self.pick(kinds)
        table = {"i": self.iarr, "r": self.rarr, "s": self.sarr}[kind]
        a = self.pick(sorted(table))
        n = table[a]
        self.features.add("array_self_reference")
        free = [x + self.sfx for x in LOOP_NAMES if x + self.sfx not in self.loopvars]

        def A(idx):
            return self.name(a) + "(" + idx + ")"

        def comb(x, y):
            if kind == "s":
                return self.pick([self.kw("MID$") + "(" + x + self.sp("+") + y + ", 1, 30)", self.kw("MID$") + "(" + y + ", 2)" + self.sp("+") + self.kw("MID$") + "(" + x + ", 1, 9)",
                                  self.kw("MID$") + "(" + x + ", 1, 12)" + self.sp("+") + '"' + self.pick("xyz+") + '"' + self.sp("+") + self.kw("MID$") + "(" + y + ", 1, 12)"])
            if kind == "r":
                return self.pick([x + self.sp("*") + "0.5" + self.sp("+") + y, "(" + x + self.sp("-") + y + ")" + self.sp("/") + "2", y + self.sp("-") + x + self.sp("*") + ".25"])
            return self.pick([x + self.sp("+") + y, x + self.sp("-") + y, "2" + self.sp("*") + y + self.sp("-") + x])

        def one(x):
            if kind == "s":
                return self.pick([self.kw("MID$") + "(" + x + self.sp("+") + '"' + self.pick("abQ:") + '", 1, 30)', '"' + self.pick("<>#") .replace("#", "_") + '"' + self.sp("+") + self.kw("MID$") + "(" + x + ", 1, 20)", x])
            return self.pick([x, x + self.sp("+") + str(self.r.randint(1, 9)), x + self.sp("*") + "-1" if kind == "r" else x + self.sp("-") + "1"])

        def loop(v, lo, hi, step, body):
            head = self.kw("FOR") + " " + self.name(v) + " = %d " % lo + self.kw("TO") + " %d" % hi + ((" " + self.kw("STEP") + " %d" % step) if step != 1 else "")
            nxt = self.kw("NEXT") + " " + self.name(v)
            if self.chance(0.5) and len(body) == 1:
                return [[None, head + " : " + body[0] + " : " + nxt]]
            return [[None, head]] + [[None, b] for b in body] + [[None, nxt]]

        out = []
        v = self.pick(free) if free else None
        vn = self.name(v) if v else None
        ops = ["literal", "literal"] + (["shift_down", "shift_up", "reverse"] + (["prefix", "prefix"] if n >= 2 else []) if v else [])
        op = self.pick(ops)
        if v and (op == "prefix" or self.chance(0.6)):
            init = {"i": vn + self.sp("*") + str(self.r.randint(1, 9)) + self.sp("+") + str(self.r.randint(0, 9)),
                    "r": vn + self.sp("*") + "1.5" + self.sp("-") + "2.25",
                    "s": self.kw("CHR$") + "(" + str(self.pick([65, 97, 48])) + self.sp("+") + vn + ")" + self.sp("+") + self.str_lit(0, 3).txt}[kind]
            out += loop(v, 0, n, 1, [A(vn) + " = " + init])
        if op == "literal":
            p_ = self.r.randint(0, n)
            q_ = self.r.randint(0, n)
            r_ = self.pick([x for x in range(n + 1) if x != p_])
            out.append([None, A(str(p_)) + self.pick([" = ", "="]) + comb(A(str(q_)), A(str(r_)))])
            if self.chance(0.5):
                out.append([None, A(str(r_)) + " = " + one(A(str(p_)))])
        elif op == "shift_down":
            out += loop(v, 0, n - 1, 1, [A(vn) + " = " + one(A(vn + self.sp("+") + "1"))])
        elif op == "shift_up":
            out += loop(v, n, 1, -1, [A(vn) + " = " + one(A(vn + self.sp("-") + "1"))])
        elif op == "prefix":
            out += loop(v, 2, n, 1, [A(vn) + " = " + comb(A(vn + self.sp("-") + "1"), A(vn + self.sp("-") + "2"))])
        else:
            tmp = self.name({"i": "idx", "r": "acc", "s": "w$"}[kind])
            out += loop(v, 0, (n - 1) // 2, 1, [tmp + " = " + A(vn), A(vn) + " = " + A(str(n) + self.sp("-") + vn), A(str(n) + self.sp("-") + vn) + " = " + tmp])
        self.cost += 6 * (n + 2) * self.mult
        if v and self.punches + (n + 1) * self.mult <= 400 and self.chance(0.7):
            item = A(vn) if self.chance(0.7) or kind != "s" else self.kw("LEN") + "(" + A(vn) + ")"
            out += loop(v, 0, n, 1, [self.kw("PUNCH") + " " + item])
            self.punches += (n + 1) * self.mult
        else:
            out.append([None, self.kw("PUNCH") + " " + A("0") + ", " + A(str(n)) + ", " + A(str(n // 2))])
            self.punches += 3 * self.mult
        return out

    def nested_exit(self, depth, d):
        """a loop inside a loop, the inner one left early by GOTO, so that the NEXT / WEND of the outer loop finds the
        abandoned inner loop still on record (WHILE in WHILE excluded, see exit_stmt)"""
        outer, inner = self.pick([("FOR", "WHILE"), ("FOR", "WHILE"), ("FOR", "FOR"), ("WHILE", "FOR")])
        self.features.add("nested_loop_exit_" + outer.lower() + "_" + inner.lower())
        if outer == "FOR":
            return self.for_loop(max(depth, 2), d, inner=inner)
        return self.while_loop(max(depth, 2), d, inner=inner)

    def loop_body(self, depth, d, inner, force_exit):
        """statements of a loop body; a forced early exit and a forced inner loop are placed between whole statements"""
        chunks = [self.stmt(depth - 1, d) for _ in range(self.small(depth))]
        if force_exit:
            chunks.insert(self.r.randint(0, len(chunks)), self.exit_stmt(d, 1))
        if inner:
            lines = self.for_loop(depth - 1, d, force_exit=True) if inner == "FOR" else self.while_loop(depth - 1, d, force_exit=True)
            chunks.insert(self.r.randint(0, len(chunks)), lines)
        return [l for c in chunks for l in c]

    def exit_stmt(self, d, k=None):
        """leave the innermost loop (or the two innermost) early by a forward jump to the line after its end.
        Excluded (recorded finding): leaving a WHILE whose next enclosing loop is a WHILE - the outer WEND would
        resume the abandoned inner loop."""
        if k is None:
            k = 2 if len(self.nest) >= 2 and self.chance(0.25) else 1
        left, rest = self.nest[-k:], self.nest[:-k]
        has_while = any(e["kind"] == "WHILE" or e.get("stale_while") for e in left)
        if has_while and rest and rest[-1]["kind"] == "WHILE":
            self.avoid("exit_from_while_directly_inside_while")
            return [self.simple_line(d)]
        if has_while and rest:
            rest[-1]["stale_while"] = True      # abandoned WHILE records stay until the NEXT of this FOR
        tgt = self.nest[-k]
        if tgt["exit"] is None:
            tgt["exit"] = self.label()
        self.features.add("loop_exit_goto")
        self.cost += 2 * self.mult
        form = self.sel(2)
        jump = tgt["exit"] if form == 0 else self.kw("GOTO") + " " + tgt["exit"]
        pre = ""
        if form == 2:
            pre = self.simple(d) + " : "
        return [[None, self.kw("IF") + " " + self.loop_condition(d) + " " + self.kw("THEN") + " " + pre + jump]]

    def small(self, depth):
        return self.r.randint(1, 3 if depth > 1 else 2)

    def if_goto(self, depth, d):
        """IF with line numbers: IF c THEN <else-label> / then-part / GOTO end / else-part / end"""
        c = self.condition(d)
        l_else, l_end = self.label(), self.label()
        form = self.sel(3)
        self.features.add("if_lineno")
        out = []
        if form == 0:
            out.append([None, self.kw("IF") + " " + c.txt + " " + self.kw("THEN") + " " + l_else])
        elif form == 1:
            out.append([None, self.kw("IF") + " " + c.txt + " " + self.kw("THEN") + " " + self.kw("GOTO") + " " + l_else])
        else:
            l_then = self.label()
            out.append([None, self.kw("IF") + " " + c.txt + " " + self.kw("THEN") + " " + l_else + " " + self.kw("ELSE") + " " + l_then])
            out.append([l_then, self.kw("REM") + " then"])
        out.extend(self.block(self.small(depth), depth - 1, d))
        if self.chance(0.6):
            out.append([None, self.kw("GOTO") + " " + l_end])
            out.append([l_else, self.simple_line(d)[1]])
            out.extend(self.block(self.small(depth) - 1, depth - 1, d))
            out.append([l_end, self.simple_line(d)[1] if self.chance(0.5) else self.kw("REM")])
        else:
            out.append([l_else, self.simple_line(d)[1] if self.chance(0.5) else self.kw("REM") + " endif"])
        self.cost += 2 * self.mult
        return out

    def for_loop(self, depth, d, inner=None, force_exit=False):
        free = [n + self.sfx for n in LOOP_NAMES if n + self.sfx not in self.loopvars]
        if not free:
            return [self.simple_line(d)]
        v = self.pick(free)
        form = self.sel(9)
        isint = True
        if form < 4:
            a = self.r.randint(-3, 5)
            trips = self.r.randint(0, 6) if self.chance(0.85) else 0
            st = self.pick([1, 1, 1, 2, 3])
            b = a + st * (trips - 1) + self.r.randint(0, st - 1) if trips > 0 else a - self.r.randint(1, 3)
            head = "%s = %d %s %d" % (self.name(v), a, self.kw("TO"), b)
            if st != 1 or self.chance(0.2):
                head += " " + self.kw("STEP") + " %d" % st
            lo, hi = a, max(a, b + st)
        elif form < 6:
            a = self.r.randint(-2, 8)
            trips = self.r.randint(0, 6) if self.chance(0.85) else 0
            st = -self.pick([1, 1, 2, 3])
            if self.chance(0.25):
                a = self.r.randint(1, 3)          # FOR k = 3 TO -3 STEP -1: runs through negative values
                st = -1
                trips = 2 * a + 1
            b = a + st * (trips - 1) - self.r.randint(0, -st - 1) if trips > 0 else a + self.r.randint(1, 3)
            head = "%s = %d %s %d %s %d" % (self.name(v), a, self.kw("TO"), b, self.kw("STEP"), st)
            lo, hi = min(a, b + st), a
        elif form < 8:
            stt = self.pick(["0.5", "0.25", "0.1", ".2", "1.5", "-0.5", "-0.25", "0.3"])
            st = float(stt)
            trips = self.r.randint(1, 6)
            a = self.pick([0, 0, 1, -1, 0.5, 2])
            b = a + st * (trips - 1) + (st / 2 if self.chance(0.5) else 0)
            head = "%s = %s %s %s %s %s" % (self.name(v), _fmt_num(a), self.kw("TO"), _fmt_num(b), self.kw("STEP"), stt)
            lo, hi = min(a, b + st) - 1, max(a, b + st) + 1
            isint = False
            trips = trips + 1
        else:
            # computed bounds with narrow static ranges
            s0 = self.clean(self.fit_int(self.int_expr(1), 0, 2))
            s1 = self.clean(self.fit_int(self.int_expr(1), 0, 4))
            head = "%s = %s %s %s" % (self.name(v), s0.txt, self.kw("TO"), s1.txt)
            trips = 5
            lo, hi = 0, 5
            if self.chance(0.3):
                st_e = self.clean(self.fit_int(self.int_expr(1), 1, 2))
                head += " " + self.kw("STEP") + " " + st_e.txt
                hi = 6
        trips = max(trips, 1)
        self.loopvars[v] = (lo, hi, isint)
        self.frozen.add(v)
        old = self.mult
        self.mult = old * trips
        self.features.add("for")
        ent = {"kind": "FOR", "var": v, "range": (lo, hi), "exit": None}
        self.nest.append(ent)
        body = self.loop_body(depth, d, inner, force_exit)
        self.nest.pop()
        self.mult = old
        self.cost += (trips + 2) * old
        nxt = self.kw("NEXT") + " " + self.name(v)
        out = None
        if len(body) == 1 and body[0][0] is None and self.chance(0.4) and self.kw_free(body[0][1]):
            out = [[None, self.kw("FOR") + " " + head + " : " + body[0][1] + " : " + nxt]]
        else:
            out = [[None, self.kw("FOR") + " " + head]] + body + [[None, nxt]]
        if ent["exit"]:
            out.append([ent["exit"], self.simple_line(d)[1] if self.chance(0.5) else self.kw("REM") + " after loop"])
        del self.loopvars[v]
        self.frozen.discard(v)
        # after the loop the variable holds the first value beyond the limit: still usable as a real
        return out

    @staticmethod
    def kw_free(txt):
        u = txt.upper()
        return " IF " not in " " + u and "REM" not in u

    def new_counter(self):
        free = [n + self.sfx for n in CNT_NAMES if n + self.sfx not in self.counters]
        return self.pick(free) if free else None

    def while_loop(self, depth, d, inner=None, force_exit=False):
        w = self.new_counter()
        if w is None:
            return [self.simple_line(d)]
        k = self.sel(5)
        self.features.add("while")
        form = self.sel(2)
        if form == 0:
            init = "%s = %d" % (self.name(w), k)
            cond = self.name(w) + self.sp(">") + "0"
            stepst = "%s = %s - 1" % (self.name(w), self.name(w))
            rng = (0, k)
        elif form == 1:
            init = "%s = 0" % self.name(w)
            cond = self.name(w) + self.sp("<") + str(k)
            stepst = "%s = %s + 1" % (self.name(w), self.name(w))
            rng = (0, k)
        else:
            init = "%s = %d" % (self.name(w), k)
            extra = self.relation(0)
            cond = self.name(w) + self.sp(">=") + "1" + self.sp("AND") + "(" + extra.txt + ")"
            stepst = "%s = %s - 1" % (self.name(w), self.name(w))
            rng = (0, k)
        self.counters[w] = rng
        self.frozen.add(w)
        old = self.mult
        self.mult = old * max(k, 1)
        ent = {"kind": "WHILE", "var": w, "range": rng, "exit": None}
        self.nest.append(ent)
        body = self.loop_body(depth, d, inner, force_exit)
        self.nest.pop()
        self.mult = old
        self.cost += (2 * k + 3) * old
        del self.counters[w]
        self.frozen.discard(w)
        first = self.chance(0.3)
        out = [[None, init], [None, self.kw("WHILE") + " " + (cond if self.chance(0.7) else "(" + cond + ")")]]
        if first:
            out.append([None, stepst])
        out.extend(body)
        if not first:
            out.append([None, stepst])
        out.append([None, self.kw("WEND")])
        if ent["exit"]:
            out.append([ent["exit"], self.simple_line(d)[1] if self.chance(0.5) else self.kw("REM") + " after loop"])
        return out

    def goto_loop(self, depth, d):
        c = self.new_counter()
        if c is None:
            return [self.simple_line(d)]
        k = self.r.randint(1, 4)
        top = self.label()
        self.features.add("goto_loop")
        self.counters[c] = (0, k)
        self.frozen.add(c)
        old = self.mult
        self.mult = old * k
        body = self.block(self.small(depth), depth - 1, d)
        self.mult = old
        self.cost += (2 * k + 2) * old
        del self.counters[c]
        self.frozen.discard(c)
        out = [[None, "%s = 0" % self.name(c)], [top, self.kw("REM") + " top" if self.chance(0.5) else "%s = %s" % (self.name(c), self.name(c))]]
        out.extend(body)
        out.append([None, "%s = %s + 1" % (self.name(c), self.name(c))])
        tail = self.kw("IF") + " " + self.name(c) + self.sp("<") + str(k) + " " + self.kw("THEN") + " "
        out.append([None, tail + (top if self.chance(0.5) else self.kw("GOTO") + " " + top)])
        return out

    def callable_subs(self):
        lo = -1 if self.cur_sub is None else self.cur_sub
        return [s for s in range(self.nsubs) if s > lo and self.sub_cost.get(s) is not None]

    def gosub(self, depth, d):
        subs = self.callable_subs()
        if not subs:
            return [self.simple_line(d)]
        s = self.pick(subs)
        if self.sub_cost[s] * self.mult > 4000:
            return [self.simple_line(d)]
        self.cost += self.sub_cost[s] * self.mult
        self.punches += self.sub_punch[s] * self.mult
        self.reads += self.sub_reads[s] * self.mult
        self.features.add("gosub")
        txt = self.kw("GOSUB") + " " + self.sub_label[s]
        if self.chance(0.3):
            txt = txt + " : " + self.simple(d)
        if self.chance(0.2):
            txt = self.kw("IF") + " " + self.condition(d).txt + " " + self.kw("THEN") + " " + txt
        return [[None, txt]]

    def on_jump(self, depth, d):
        n = self.r.randint(1, 3)
        sel = self.fit_int(self.int_expr(1), 0, n + 1)
        if self.chance(0.3):
            # fractional selector, rounded to the nearest integer (never a half)
            sel = Nd(self.at(sel, P_ADD) + self.sp("+") + self.pick(["0.25", "0.3", "0.125"]), P_ADD, 0, n + 2) if self.chance(0.5) else \
                Nd(self.at(sel, P_ADD) + self.sp("-") + self.pick(["0.25", "0.3", "0.125"]), P_ADD, 0, n + 2)
            self.avoid("on_selector_not_a_half")
        subs = self.callable_subs()
        if subs and self.chance(0.4) and all(self.sub_cost[s] * self.mult < 3000 for s in subs):
            tg = [self.pick(subs) for _ in range(n)]
            for s in tg:
                self.cost += self.sub_cost[s] * self.mult
                self.punches += self.sub_punch[s] * self.mult
                self.reads += self.sub_reads[s] * self.mult
            self.features.add("on_gosub")
            return [[None, self.kw("ON") + " " + sel.txt + " " + self.kw("GOSUB") + " " + ", ".join(self.sub_label[s] for s in tg)]]
        self.features.add("on_goto")
        labs = [self.label() for _ in range(n)]
        l_end = self.label()
        out = [[None, self.kw("ON") + " " + sel.txt + " " + self.kw("GOTO") + " " + ",".join(labs)]]
        out.append(self.simple_line(d))
        out.append([None, self.kw("GOTO") + " " + l_end])
        for lb in labs:
            out.append([lb, self.simple_line(d)[1]])
            if self.chance(0.7):
                out.append([None, self.kw("GOTO") + " " + l_end])
        out.append([l_end, self.kw("REM") + " end on" if self.chance(0.5) else self.simple_line(d)[1]])
        self.cost += 4 * self.mult
        return out

    # -- whole program
    def program(self):
        r = self.r
        d = self.pick([1, 2, 2, 3])
        depth = self.pick([1, 2, 2, 3])
        # arrays
        prologue = []
        dims = []
        for names, table in ((IARR_NAMES, self.iarr), (RARR_NAMES, self.rarr), (SARR_NAMES, self.sarr)):
            for n in names:
                if self.chance(0.5):
                    table[n] = r.randint(1, 8)
                    sz = table[n]
                    t = str(sz)
                    if self.chance(0.2):
                        a_ = r.randint(0, sz)
                        t = "%d + %d" % (a_, sz - a_)
                    dims.append(self.name(n) + "(" + t + ")")
        while dims:
            k = r.randint(1, min(3, len(dims)))
            prologue.append([None, self.kw("DIM") + " " + ", ".join(dims[:k])])
            dims = dims[k:]
        for n in POS_NAMES:
            prologue.append([None, self.name(n) + " = " + self.pos_lit().txt])
        for n in r.sample(INT_NAMES, r.randint(0, 4)):
            prologue.append([None, self.name(n) + " = " + self.int_lit(-9, 30).txt])
        for n in r.sample(REAL_NAMES, r.randint(0, 4)):
            prologue.append([None, self.name(n) + " = " + self.real_lit().txt])
        for n in r.sample(STR_NAMES, r.randint(0, 3)):
            prologue.append([None, self.name(n) + " = " + self.str_lit(0, 10).txt])
        # subroutines, generated from the last to the first (a subroutine only calls later ones)
        self.nsubs = r.randint(0, 4)
        self.sub_punch, self.sub_reads = {}, {}
        sub_items = {}
        for s in range(self.nsubs - 1, -1, -1):
            self.cur_sub = s
            self.nest = []
            self.sfx = "_s%d" % s
            self.sub_label[s] = "@S%d@" % s
            c0, p0, r0 = self.cost, self.punches, self.reads
            self.cost = self.punches = self.reads = 0
            self.mult = 1
            body = self.block(r.randint(1, 4), max(depth - 1, 1), d)
            body[0][0] = body[0][0] or None
            first = [self.sub_label[s], self.kw("REM") + " sub %d" % s]
            ret = self.kw("RETURN")
            if self.chance(0.15):
                ret = self.kw("IF") + " " + self.condition(1).txt + " " + self.kw("THEN") + " " + self.kw("RETURN")
                body.append([None, ret])
                ret = self.kw("RETURN")
            sub_items[s] = [first] + body + [[None, ret]]
            self.sub_cost[s] = self.cost + 3
            self.sub_punch[s] = self.punches
            self.sub_reads[s] = self.reads
            self.cost, self.punches, self.reads = c0, p0, r0
        self.cur_sub = None
        self.nest = []
        self.sfx = ""
        self.mult = 1
        main = self.block(self.size, depth, d)
        while self.punches < 5:
            main.append([None, self.st_punch(d)])
        main.append([None, self.kw("END")])
        items = prologue + main
        for s in range(self.nsubs):
            items.extend(sub_items[s])
        # DATA lines: enough numeric items for every READ that can execute
        need = int(self.reads) + 10
        data_lines = []
        if "read" in self.features or "restore" in self.features or self.chance(0.1):
            per = []
            while need > 0:
                k = r.randint(1, 6)
                per.append(k)
                need -= k
            while len(per) < 2:
                per.append(r.randint(1, 3))
            for i, k in enumerate(per):
                vals = []
                for _ in range(k):
                    x = self.real_lit()
                    vals.append(x.txt)
                data_lines.append(["@DATA%d@" % i if i < 2 else None, self.kw("DATA") + " " + ", ".join(vals)])
            # DATA statements may stand anywhere: keep their relative order, spread them over the program
            pos = sorted(r.randint(0, len(items)) for _ in data_lines)
            for off, (p, dl) in enumerate(zip(pos, data_lines)):
                items.insert(p + off, dl)
        # line numbers
        start = r.randint(1, 50)
        nums = []
        cur = start
        for _ in items:
            nums.append(cur)
            cur += self.pick([1, 2, 5, 10, 10, 10, 17])
        labmap = {}
        for (lab, txt), n in zip(items, nums):
            if lab:
                labmap[lab] = n
        lines = []
        for (lab, txt), n in zip(items, nums):
            def sub(m):
                key = m.group(0)
                if key not in labmap:
                    # a RESTORE to a DATA label that does not exist: plain RESTORE
                    return ""
                return str(labmap[key])
            t = re.sub(r"@[A-Z]+\d+@", sub, txt)
            lines.append("%d %s" % (n, t))
        if self.chance(0.15):
            # "statements are evaluated in numerical order": the text order is irrelevant
            r.shuffle(lines)
            self.features.add("shuffled_lines")
        return lines


def generate_program(rnd, size):
    g = Gen(rnd, size)
    lines = g.program()
    return {"lines": lines, "avoided": g.avoided, "features": sorted(g.features), "est_cost": int(g.cost), "est_punch": int(g.punches)}
