"""C11 generator: 1D columns for ADVECTION / TRANSPORT (Hypothesis strategies, construction not rejection).

A *case* is a JSON-able dict (all numbers are written to the input with repr(), so the text is a pure function of it)

    {"kind": "T" | "A",                       TRANSPORT or ADVECTION keyword
     "fam":  family the case was drawn from (closed_diff | pure_adv | mixing | solids | other)  -- a label only; the
             oracle clauses are selected from the *configuration*, never from this label
     "n": cells, "shifts": k, "flow": forward|back|diffusion_only, "bc": [first, last],
     "lengths": [n], "disp": [n], "diffc": D, "timest": t, "substeps": f, "correct_disp": bool,
     "stag": null | {"mode": "exch", "exch_f", "th_m", "th_im", "wratio": "por"|"one"}
                  | {"mode": "mix", "a": [n fractions], "wim": [n water masses]}
                  | {"mode": "layers", "L": 2|3, "w": [L lists of n water masses], "x": [L lists of n fractions],
                     "assign": [L lists of n palette indices]}   (stagnant layer l of mobile cell i is cell i + 1 + l*n;
                     x[l][i] = part of the smaller of the two water masses exchanged between layers l and l+1, 0 = mobile),
     "multi_d": null | {"Dw", "por", "por_lim", "n", "pors": null | [cells...]},
     "implicit": null | {"max_mixf", "min_lm"},
     "temp": T, "palette": [{"pH", "comps": [[el, molality]...]}...],
     "assign": [n palette indices], "in0": idx, "in1": idx, "stag_assign": [n] | null,
     "water": [n water masses of the mobile cells],
     "solids": null | {"calcite": [n moles], "cec": [n moles X], "co2": bool}}

`render(case)` -> input text.  Every TRANSPORT option the oracle depends on is written out in every block.
"""
from hypothesis import strategies as st
from . import chemgen as cg

fmt = cg.fmt

# conservative solutes: element -> (charge per mole of the element in solution, max molality)
CATIONS = {"Na": (1, 0.5), "K": (1, 0.2), "Li": (1, 0.02), "Ca": (2, 0.05), "Mg": (2, 0.05)}
ANIONS = {"Cl": (1, 0.5), "Br": (1, 0.02), "N(5)": (1, 0.02)}
ZABS = {"Na": 1, "K": 1, "Li": 1, "Ca": 2, "Mg": 2, "Cl": 1, "Br": 1, "N": 1, "C": 2, "X": 0}
BC = ["constant", "closed", "flux"]


def base(el):
    return el.split("(")[0]


@st.composite
def palette_solution(draw, ph_free, min_conc=1e-5, fixed=None, narrow=False):
    """charge-balanced solution of conservative solutes: cations and anions are drawn, the balance goes to Cl or Na.
    fixed = (cations, anions): use exactly these elements (both lists then contain Na and Cl, so that the balance does
    not introduce an element)"""
    if fixed is None:
        cats = draw(st.lists(st.sampled_from(sorted(CATIONS)), min_size=1, max_size=3, unique=True))
        ans = draw(st.lists(st.sampled_from(sorted(ANIONS)), min_size=0, max_size=2, unique=True))
    else:
        cats, ans = fixed
    comps = {}
    q = 0.0
    for e in cats:
        z, hi = CATIONS[e]
        c = draw(cg.logu(hi * 0.05, hi * 0.5, 3)) if narrow else draw(cg.logu(max(min_conc, hi * 1e-4), hi, 3))
        comps[e] = c
        q += z * c
    for e in ans:
        z, hi = ANIONS[e]
        c = draw(cg.logu(hi * 0.05, hi * 0.5, 3)) if narrow else draw(cg.logu(max(min_conc, hi * 1e-4), hi, 3))
        comps[e] = c
        q -= z * c
    if q > 0:
        comps["Cl"] = comps.get("Cl", 0.0) + q
    elif q < 0:
        comps["Na"] = comps.get("Na", 0.0) - q
    ph = draw(cg.uni(5.5, 8.5, 3)) if ph_free else 7.0
    return {"pH": ph, "comps": sorted([e, float(repr(c))] for e, c in comps.items())}


def _lengths(draw, n, equal):
    if equal:
        return [draw(cg.logu(0.002, 2.0, 3))] * n
    l0 = draw(cg.logu(0.01, 1.0, 3))
    return [float("%.3g" % (l0 * draw(st.sampled_from([0.5, 0.75, 1.0, 1.0, 1.5, 2.0])))) for _ in range(n)]


@st.composite
def column(draw, tier="quick", fam=None):
    quick = tier != "thorough"
    if fam is None:
        fam = draw(st.sampled_from(["closed_diff"] * 7 + ["pure_adv"] * 4 + ["mixing"] * 6 + ["solids"] * 2 + ["other"]))
    nmax = 12 if quick else 40
    smax = 8 if quick else 20
    case = {"fam": fam, "kind": "T", "correct_disp": draw(st.booleans()), "substeps": 1.0, "temp": 25.0,
            "stag": None, "multi_d": None, "implicit": None, "solids": None, "stag_assign": None}
    if draw(st.integers(0, 5)) == 0:
        case["temp"] = draw(st.sampled_from([10.0, 15.0, 40.0]))

    # ------------------------------------------------------------------ configuration per family
    if fam == "pure_adv":
        n = draw(st.integers(1, nmax))
        case["kind"] = draw(st.sampled_from(["A", "T", "T"]))
        case["flow"] = "forward" if case["kind"] == "A" else draw(st.sampled_from(["forward", "back"]))
        case["bc"] = [draw(st.sampled_from(BC)), draw(st.sampled_from(BC))]
        equal = draw(st.booleans())
        case["lengths"] = _lengths(draw, n, equal)
        case["disp"] = [0.0] * n
        case["diffc"] = 0.0
        case["timest"] = draw(st.sampled_from([0.0, 1.0, 3600.0, 86400.0]))
        md = draw(st.integers(0, 5)) == 0 and case["kind"] == "T"
        if md:
            # multicomponent diffusion switched on but disabled by the porosity limit: still pure advection
            por = draw(cg.uni(0.05, 0.5, 2))
            case["multi_d"] = {"Dw": draw(cg.logu(1e-10, 3e-9, 2)), "por": por, "por_lim": float("%.3g" % (por * 2)), "n": 1.0,
                               "pors": None}
            case["timest"] = draw(st.sampled_from([1.0, 3600.0, 86400.0]))
        shifts = draw(st.integers(2, smax))
    elif fam in ("closed_diff", "solids"):
        n = draw(st.integers(1, nmax if fam == "closed_diff" else min(nmax, 10)))
        case["flow"] = "diffusion_only"
        case["bc"] = ["closed", "closed"]
        mode = draw(st.sampled_from(["single", "single", "mcd", "mcd", "implicit"]))
        equal = True if mode == "single" else draw(st.booleans())
        case["lengths"] = _lengths(draw, n, equal)
        case["disp"] = [draw(st.sampled_from([0.0, 0.01, 0.1]))] * n     # irrelevant without flow
        shifts = draw(st.integers(1, smax))
        _diffusion(draw, case, n, mode, quick)
        if draw(st.integers(0, 3)) == 0 and n >= 1:
            _stagnant(draw, case, n, mode, solids=(fam == "solids"), layers_ok=(mode != "implicit"))
    elif fam == "mixing":
        # single diffusion coefficient, anything else free
        n = draw(st.integers(1, nmax))
        case["flow"] = draw(st.sampled_from(["forward", "forward", "back", "diffusion_only"]))
        case["bc"] = [draw(st.sampled_from(BC)), draw(st.sampled_from(BC))]
        equal = draw(st.booleans())
        case["lengths"] = _lengths(draw, n, equal)
        lmin = min(case["lengths"])
        if draw(st.integers(0, 3)) == 0:
            case["disp"] = [0.0] * n
        elif draw(st.booleans()):
            case["disp"] = [float("%.3g" % (lmin * draw(st.sampled_from([0.05, 0.2, 0.5, 1.0, 2.0]))))] * n
        else:
            case["disp"] = [float("%.3g" % (lmin * draw(st.sampled_from([0.0, 0.05, 0.2, 0.5, 1.0, 2.0])))) for _ in range(n)]
        if n >= 2 and case["flow"] != "diffusion_only" and draw(st.integers(0, 2)) == 0:
            # strong contrast in an END cell next to a constant boundary: its boundary term disp/length (or the short
            # length) dominates the number of mixing runs of the whole column
            end = draw(st.sampled_from([0, n - 1, n - 1]))
            case["bc"][0 if end == 0 else 1] = "constant"
            a0 = draw(st.sampled_from([0.0, 0.05, 0.1, 0.2, 0.5]))
            if draw(st.booleans()):
                l0 = case["lengths"][0] if equal else lmin
                case["lengths"] = [l0] * n
                case["disp"] = [float("%.3g" % (l0 * a0))] * n
                case["disp"][end] = float("%.3g" % (l0 * draw(st.sampled_from([0.8, 1.0, 1.5, 1.9, 2.05, 2.1, 2.15, 2.2, 2.3, 2.5, 3.0, 4.0]))))
            else:
                l0 = draw(cg.logu(0.05, 1.0, 3))
                case["lengths"] = [l0] * n
                case["lengths"][end] = float("%.3g" % (l0 * draw(st.sampled_from([0.05, 0.1, 0.15, 0.2, 0.3]))))
                case["disp"] = [float("%.3g" % (l0 * max(a0, 0.05)))] * n
            case["end_contrast"] = end
        shifts = draw(st.integers(1, smax))
        if "end_contrast" in case and draw(st.booleans()):
            shifts = draw(st.integers(1, 3))      # an unstable end cell is visible before the run can break down
        _diffusion(draw, case, n, "single", quick, allow_zero=True)
        if draw(st.integers(0, 3)) == 0:
            _stagnant(draw, case, n, "single", layers_ok=True)
    else:  # other: multicomponent diffusion with open boundaries / flow (no clause of the statement applies beyond completion)
        n = draw(st.integers(2, min(nmax, 8)))
        case["flow"] = draw(st.sampled_from(["forward", "back", "diffusion_only"]))
        case["bc"] = [draw(st.sampled_from(BC)), draw(st.sampled_from(BC))]
        case["lengths"] = _lengths(draw, n, draw(st.booleans()))
        case["disp"] = [float("%.3g" % (min(case["lengths"]) * draw(st.sampled_from([0.0, 0.1, 0.5]))))] * n
        shifts = draw(st.integers(1, min(smax, 5)))
        _diffusion(draw, case, n, draw(st.sampled_from(["mcd", "implicit"])), quick)
    case["n"] = n
    case["shifts"] = shifts

    # ------------------------------------------------------------------ solutions
    ph_free = draw(st.booleans())
    npal = draw(st.integers(2, 4))
    with_c = fam == "solids"
    fixed = None
    if case["implicit"] is not None:
        # known finding (replays/C11/known/mcd-implicit-min-mol-floor.json): -implicit keeps >= 1e-13 mol of every diffusing
        # element in every cell, i.e. creates that much in each cell that lacks the element -> with -implicit all solutions
        # of the column contain the same elements (at different concentrations)
        cats = sorted(set(draw(st.lists(st.sampled_from(sorted(CATIONS)), min_size=0, max_size=2, unique=True))) | {"Na"})
        ans = sorted(set(draw(st.lists(st.sampled_from(sorted(ANIONS)), min_size=0, max_size=2, unique=True))) | {"Cl"})
        fixed = (cats, ans)
        case.setdefault("excluded", []).append("implicit_with_element_absent_in_a_cell")
    narrow = False
    if "end_contrast" in case and draw(st.integers(0, 2)) > 0:
        # an end cell with a (slightly) negative self-mixing factor drives every element that the boundary solution lacks
        # below zero and the run stops (outside the domain); with common elements at comparable concentrations the run
        # completes and the overshoot is visible
        cats = sorted(set(draw(st.lists(st.sampled_from(sorted(CATIONS)), min_size=0, max_size=2, unique=True))) | {"Na"})
        ans = sorted(set(draw(st.lists(st.sampled_from(sorted(ANIONS)), min_size=0, max_size=1, unique=True))) | {"Cl"})
        fixed, narrow = (cats, ans), True
    case["palette"] = [draw(palette_solution(ph_free, fixed=fixed, narrow=narrow)) for _ in range(npal)]
    # 2-4 distinct solutions spread over the cells as contiguous blocks (fronts) or interleaved
    if draw(st.booleans()) or n < 2:
        case["assign"] = [draw(st.integers(0, npal - 1)) for _ in range(n)]
    else:
        cuts = sorted(draw(st.lists(st.integers(1, n - 1), min_size=1, max_size=min(3, n - 1), unique=True))) if n > 1 else []
        order = draw(st.permutations(list(range(npal))))
        a, k = [], 0
        for i in range(n):
            while k < len(cuts) and i >= cuts[k]:
                k += 1
            a.append(order[k % npal])
        case["assign"] = a
    case["in0"] = draw(st.integers(0, npal - 1))
    case["in1"] = draw(st.integers(0, npal - 1))
    # water masses of the mobile cells: 1 kg, or varying (only without stagnant zones; see oracle (i))
    if case["stag"] is None and draw(st.integers(0, 3)) == 0:
        case["water"] = [draw(st.sampled_from([0.5, 1.0, 1.0, 2.0])) for _ in range(n)]
    else:
        w = draw(st.sampled_from([1.0, 1.0, 1.0, 0.5, 2.5]))
        case["water"] = [w] * n
    if case["stag"] is not None:
        case["stag_assign"] = [draw(st.integers(0, npal - 1)) for _ in range(n)]
        if case["stag"]["mode"] == "layers":
            case["stag"]["assign"] = [case["stag_assign"]] + [[draw(st.integers(0, npal - 1)) for _ in range(n)]
                                                              for _ in range(case["stag"]["L"] - 1)]
    if fam == "solids":
        kind = draw(st.sampled_from(["both", "both", "calcite", "exchanger"]))
        s = {"calcite": None, "cec": None, "co2": False}
        if kind in ("both", "calcite"):
            s["calcite"] = [draw(st.sampled_from([0.0, 1e-4, 1e-3, 0.01, 0.1])) for _ in range(n)]
        if kind in ("both", "exchanger"):
            s["cec"] = [draw(st.sampled_from([1e-3, 0.01, 0.05, 0.1])) for _ in range(n)]
        case["solids"] = s
    return case


def _diffusion(draw, case, n, mode, quick, allow_zero=False):
    """diffusion coefficient / multi_d parameters and a time step that gives a bounded number of mixing sub-steps"""
    lmin = min(case["lengths"])
    # target D*dt/dx^2: log-uniform, or a value next to the stability limits of the explicit schemes (number of
    # sub-mixes = 1 + floor(1.5 * (m_left + m_right)), 2.25 with a constant boundary)
    if draw(st.booleans()):
        mf = draw(cg.logu(0.02, 6.0 if quick else 12.0, 3))
    else:
        mf = draw(st.sampled_from([0.22, 0.3, 0.33, 0.34, 0.45, 0.5, 0.55, 0.6, 0.64, 0.66, 0.67, 0.7, 0.9, 1.0, 1.3, 1.34, 2.0, 2.7]))
    if mode == "single":
        if allow_zero and draw(st.integers(0, 4)) == 0:
            case["diffc"] = 0.0
            case["timest"] = draw(st.sampled_from([1.0, 3600.0, 86400.0]))
        else:
            case["diffc"] = draw(cg.logu(1e-11, 3e-9, 3))
            case["timest"] = float("%.3g" % (mf * lmin * lmin / case["diffc"]))
        return
    por = draw(cg.uni(0.05, 0.9, 2))
    nexp = draw(st.sampled_from([0.0, 1.0, 1.0, 2.0]))
    md = {"Dw": draw(cg.logu(1e-10, 3e-9, 2)), "por": por, "por_lim": draw(st.sampled_from([0.0, 0.0, 0.01])), "n": nexp, "pors": None}
    if draw(st.integers(0, 2)) == 0:
        md["pors"] = [draw(cg.uni(0.05, 0.9, 2)) for _ in range(n)]
    case["multi_d"] = md
    case["diffc"] = draw(cg.logu(1e-11, 3e-9, 3))     # must be irrelevant with multi_d
    pmax = max(md["pors"]) if md["pors"] else por
    dmax = 9.31e-9 * (pmax ** nexp)
    case["timest"] = float("%.3g" % (mf * lmin * lmin / dmax))
    if draw(st.integers(0, 5)) == 0:
        case["substeps"] = draw(st.sampled_from([1.5, 2.0, 3.0]))
    if mode == "implicit":
        case["implicit"] = {"max_mixf": draw(st.sampled_from([1.0, 1.0, 0.7, 0.5, 0.3])), "min_lm": draw(st.sampled_from([-30.0, -30.0, -20.0]))}


def _stagnant(draw, case, n, mode, solids=False, layers_ok=False):
    md = case["multi_d"]
    if layers_ok and draw(st.integers(0, 2)) == 0:
        # 2-3 stagnant layers linked by explicit, mass-conserving MIX pairs: mobile <-> layer 1 <-> layer 2 (<-> layer 3)
        L = draw(st.sampled_from([2, 2, 3]))
        if md is not None:
            md["pors"] = None
        sc = 1.0 if md is None else md["Dw"] / 9.31e-9
        fr = [0.0, 0.02, 0.1, 0.2, 0.3, 0.45] if md is None else [0.0, 0.02, 0.05, 0.1]
        wl = [0.25, 0.5, 1.0, 1.0, 2.0] if md is None else [0.5, 1.0, 1.0, 2.0]
        case["stag"] = {"mode": "layers", "L": L,
                        "w": [[draw(st.sampled_from(wl)) for _ in range(n)] for _ in range(L)],
                        "x": [[float("%.3g" % (draw(st.sampled_from(fr)) * sc)) for _ in range(n)] for _ in range(L)],
                        "assign": None}
        return
    # with multi_d a MIX fraction f between a mobile and a stagnant cell is read as a geometry factor: the fraction that
    # is effectively exchanged for a species is f * Dw(species) / default_Dw (find_J), so f is scaled down by
    # default_Dw / Dw(H+) to keep the explicit scheme stable; per-cell porosities are not combined with stagnant cells
    scale = 1.0
    if md is not None:
        md["pors"] = None
        scale = md["Dw"] / 9.31e-9
    exch = draw(st.booleans())
    # (known finding stagnant-exchange-frozen-water-ratio: the first-order exchange conserves moles only while the water-mass
    #  ratio of each mobile/stagnant pair stays at the ratio the factors were built for; reactive solids change it by about
    #  1e-6 -- the inventory clause carries the mechanism's own bound, see clause_inventory)
    if exch:
        th_m = draw(cg.uni(0.1, 0.5, 2))
        th_im = draw(cg.uni(0.02, 0.5, 2))
        # exchange factor such that alpha*dt/(b*th_im) spans 0.003..3 (dt = timest; the sub-step is shorter)
        t = case["timest"] if case["timest"] > 0 else 1.0
        x = draw(cg.logu(0.003, 3.0 if md is None else 0.3, 3)) * scale
        case["stag"] = {"mode": "exch", "exch_f": float("%.3g" % (x * th_im / t)), "th_m": th_m, "th_im": th_im,
                        "wratio": "por" if md is not None else draw(st.sampled_from(["por", "por", "one"]))}
    else:
        fr = [0.0, 0.01, 0.1, 0.3, 0.6] if md is None else [0.0, 0.01, 0.05, 0.1]
        if case["implicit"] is not None:
            # -implicit with a stagnant layer fails (non-convergence after a cell is drained) when an inner mobile cell has
            # no MIX with its stagnant cell (transport.cpp diffuse_implicit fills A[i][0..2] for such a cell although the
            # full-matrix layout is in use) -> every cell gets a MIX
            fr = [0.01, 0.05, 0.1]
        case["stag"] = {"mode": "mix", "a": [float("%.3g" % (draw(st.sampled_from(fr)) * scale)) for _ in range(n)],
                        "wim": [draw(st.sampled_from([0.25, 0.5, 1.0, 1.0, 2.0] if md is None else [0.5, 1.0, 1.0, 2.0])) for _ in range(n)]}


# ------------------------------------------------------------------------------------------------- rendering
def nlayers(case):
    s = case["stag"]
    return 0 if s is None else (s["L"] if s["mode"] == "layers" else 1)


def stag_cells(case):
    """[(cell number, 0-based mobile index, layer)] of all stagnant cells"""
    n = case["n"]
    return [(i + 2 + l * n, i, l) for l in range(1, nlayers(case) + 1) for i in range(n)]


def layer_water(case, i, l):
    """water mass of layer l (0 = mobile) of mobile cell i (0-based)"""
    if l == 0:
        return case["water"][i]
    s = case["stag"]
    return s["w"][l - 1][i] if s["mode"] == "layers" else stag_water(case, i)


def stag_water(case, i):
    """water mass of the stagnant cell that belongs to mobile cell i (0-based)"""
    s = case["stag"]
    wm = case["water"][i]
    if s["mode"] == "exch":
        return float(repr(wm * s["th_im"] / s["th_m"])) if s["wratio"] == "por" else wm
    return s["wim"][i]


def solution_text(num, sol, temp, water, extra_c=None):
    L = ["SOLUTION %d" % num, " temp %s" % fmt(temp), " pH %s" % fmt(sol["pH"]), " pe 4", " units mol/kgw"]
    for e, c in sol["comps"]:
        L.append(" %s %s" % (e, fmt(c)))
    if extra_c:
        L.append(" C(4) %s" % fmt(extra_c))
    L.append(" -water %s" % fmt(water))
    return "\n".join(L)


def elements_of(case):
    els = set()
    for s in case["palette"]:
        for e, c in s["comps"]:
            els.add(base(e))
    if case["solids"]:
        if case["solids"]["calcite"] is not None:
            els.update(["Ca", "C"])
        if case["solids"]["cec"] is not None:
            els.update(["X", "Na"])
    return sorted(els)


def punch_block(case):
    els = elements_of(case)
    solids = case["solids"] is not None
    heads = ["cell", "stepno", "water", "cb", "mH", "mOH", "tm_H", "tm_O"]
    items = ["CELL_NO", "STEP_NO", 'TOT("water")', "CHARGE_BALANCE", 'MOL("H+")', 'MOL("OH-")', 'TOTMOLE("H")', 'TOTMOLE("O")']
    for e in els:
        if e == "X":
            continue
        heads.append("tm_" + e)
        items.append('TOTMOLE("%s")' % e)
    if solids:
        for e in els + ["H", "O"]:
            heads.append("sys_" + e)
            items.append('SYS("%s")' % e)
    L = ["SELECTED_OUTPUT 1", " -reset false", " -state true", " -solution true", " -high_precision true",
         "USER_PUNCH 1", " -headings " + " ".join(heads), " -start"]
    # several PUNCH statements keep the lines short
    ln = 10
    for k in range(0, len(items), 6):
        L.append(" %d PUNCH %s" % (ln, ", ".join(items[k:k + 6])))
        ln += 10
    L.append(" -end")
    return "\n".join(L), heads


def render(case):
    n = case["n"]
    P = ["TITLE C11 generated column", cg.KNOBS_TIGHT, "PRINT\n -reset false\n -selected_output true\n -warnings 200"]
    pb, heads = punch_block(case)
    P.append(pb)
    temp = case["temp"]
    pal = case["palette"]
    solids = case["solids"]
    cadd = 1e-3 if (solids and solids["calcite"] is not None) else None
    wb = case["water"][0]
    P.append(solution_text(0, pal[case["in0"]], temp, wb, cadd))
    for i in range(n):
        P.append(solution_text(i + 1, pal[case["assign"][i]], temp, case["water"][i], cadd))
    P.append(solution_text(n + 1, pal[case["in1"]], temp, case["water"][-1], cadd))
    if case["stag"] is not None and case["stag"]["mode"] == "layers":
        st_ = case["stag"]
        for c, i, l in stag_cells(case):
            P.append(solution_text(c, pal[st_["assign"][l - 1][i]], temp, st_["w"][l - 1][i], cadd))
        for i in range(n):
            # exchanged water mass of each pair; every cell keeps its water mass, every pair conserves moles
            mixes = {}
            for l in range(st_["L"]):
                x = st_["x"][l][i]
                if x == 0.0:
                    continue
                wa, wb = layer_water(case, i, l), layer_water(case, i, l + 1)
                m = x * min(wa, wb)
                ca = i + 1 if l == 0 else i + 2 + l * n
                cb = i + 2 + (l + 1) * n
                mixes.setdefault(ca, {ca: 1.0})
                mixes.setdefault(cb, {cb: 1.0})
                mixes[ca][ca] -= m / wa
                mixes[ca][cb] = m / wb
                mixes[cb][cb] -= m / wb
                mixes[cb][ca] = m / wa
            for c in sorted(mixes):
                P.append("MIX %d\n" % c + "\n".join(" %d %s" % (k, fmt(v)) for k, v in sorted(mixes[c].items())))
    elif case["stag"] is not None:
        for i in range(n):
            P.append(solution_text(n + 2 + i, pal[case["stag_assign"][i]], temp, stag_water(case, i), cadd))
        if case["stag"]["mode"] == "mix":
            for i in range(n):
                a = case["stag"]["a"][i]
                if a == 0.0:
                    continue
                wm, wi = case["water"][i], case["stag"]["wim"][i]
                # exchange of the water fraction a of the mobile cell against the same mass of stagnant water
                b = a * wm / wi
                if b > 0.9:
                    a = 0.9 * wi / wm
                    b = 0.9
                P.append("MIX %d\n %d %s\n %d %s" % (i + 1, i + 1, fmt(1.0 - a), n + 2 + i, fmt(b)))
                P.append("MIX %d\n %d %s\n %d %s" % (n + 2 + i, n + 2 + i, fmt(1.0 - b), i + 1, fmt(a)))
    if solids:
        cells = list(range(1, n + 1))
        cells += [c for c, i, l in stag_cells(case)]
        for k, c in enumerate(cells):
            i = k % n
            if solids["calcite"] is not None:
                P.append("EQUILIBRIUM_PHASES %d\n Calcite 0 %s" % (c, fmt(solids["calcite"][i])))
            if solids["cec"] is not None:
                P.append("EXCHANGE %d\n X %s\n -equilibrate %d" % (c, fmt(solids["cec"][i]), c))
        P.append("USE solution none")      # no batch reaction in the defining simulation
    P.append("END")
    if case["kind"] == "A":
        L = ["ADVECTION", " -cells %d" % n, " -shifts %d" % case["shifts"], " -time_step %s" % fmt(case["timest"]),
             " -initial_time 0", " -punch_cells 1-%d" % n, " -punch_frequency 1", " -print_cells 1-%d" % n,
             " -print_frequency 1", " -warnings true"]
    else:
        last = n * (1 + nlayers(case)) + 1
        L = ["TRANSPORT", " -cells %d" % n, " -shifts %d" % case["shifts"], " -flow_direction %s" % case["flow"],
             " -boundary_conditions %s %s" % (case["bc"][0], case["bc"][1]),
             " -lengths " + " ".join(fmt(x) for x in case["lengths"]),
             " -dispersivities " + " ".join(fmt(x) for x in case["disp"]),
             " -correct_disp %s" % str(case["correct_disp"]).lower(),
             " -diffusion_coefficient %s" % fmt(case["diffc"]),
             " -time_step %s %s" % (fmt(case["timest"]), fmt(case["substeps"])),
             " -initial_time 0", " -thermal_diffusion 2.0 %s" % fmt(case["diffc"]), " -fix_current 0"]
        s = case["stag"]
        if s is None:
            L.append(" -stagnant 0 0 0 0")
        elif s["mode"] == "exch":
            L.append(" -stagnant 1 %s %s %s" % (fmt(s["exch_f"]), fmt(s["th_m"]), fmt(s["th_im"])))
        else:
            L.append(" -stagnant %d 0 0 0" % nlayers(case))
        md = case["multi_d"]
        if md is None:
            L.append(" -multi_d false")
        else:
            L.append(" -multi_d true %s %s %s %s false" % (fmt(md["Dw"]), fmt(md["por"]), fmt(md["por_lim"]), fmt(md["n"])))
            if md["pors"]:
                pors = list(md["pors"])
                if s is not None:
                    pors = pors + [pors[-1]] + pors[:-1]  # cells 1..n, n+1 (skipped by the reader), stagnant n+2..(last value repeats)
                L.append(" -porosities " + " ".join(fmt(x) for x in pors))
        L.append(" -interlayer_d false")
        im = case["implicit"]
        if im is None:
            L.append(" -implicit false")
        else:
            L.append(" -implicit true %s %s" % (fmt(im["max_mixf"]), fmt(im["min_lm"])))
        L += [" -punch_cells 0-%d" % last, " -punch_frequency 1", " -print_cells 0-%d" % last, " -print_frequency 1",
              " -warnings true"]
    P.append("\n".join(L))
    P.append("END")
    return "\n".join(P) + "\n", heads
