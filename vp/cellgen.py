"""Generator of reaction-cell histories shared by C02 (conservation) and C03 (end-state validity).

A *case* is a JSON-able dict

    {"db": "phreeqc.dat", "sols": [solution...], "steps": [step...]}

`sols` are initial solutions 1..n.  Every step reacts one cell: solution (an initial one or the product of the previous
step) or a MIX, plus any subset of REACTION / EQUILIBRIUM_PHASES / EXCHANGE / SURFACE / GAS_PHASE / SOLID_SOLUTIONS /
KINETICS (each either newly defined or carried over from the previous step), as a batch reaction (USE ... SAVE ...) or
through RUN_CELLS, with INCREMENTAL_REACTIONS on or off.

`plan(case)` turns the case into input texts and the bookkeeping the oracles need (pure function of the case):

    {"sim0": text,                              # KNOBS, RATES, extra PHASES, initial solutions
     "steps": [{"setup": text,                 # definitions + COPY of carried reactants into cell c, DUMP -all  (inventory before)
                "run": text,                   # the reaction step, SAVEs, DUMP -all                                   (inventory after)
                "cell": c, "saved": d,         # numbers: reactants used are numbered c, products d (= c for RUN_CELLS)
                "before": [[KIND, n, weight]...], "after": [[KIND, n]...],
                "kinds": [...],                # reactant kinds in this cell (besides the solution)
                "added": {"reactants": [[name, coef]...], "amount": moles of reaction progress expected for the whole step},
                "nsteps": N}]}

Numbers: step k (0-based) uses cell c = 10(k+1); batch products are saved to c+1, RUN_CELLS writes back to c;
kinetics is always written back to c by the engine.  Definitions never share a simulation with a solution definition
or a USE, and the setup simulation ends with `USE solution none / USE mix none`, so defining never reacts anything.
"""
from hypothesis import strategies as st
from . import chemgen as cg

fmt = cg.fmt

KINDS = ["reaction", "pp", "exch", "surf", "gas", "ss", "kin"]
RAWKIND = {"pp": "EQUILIBRIUM_PHASES", "exch": "EXCHANGE", "surf": "SURFACE", "gas": "GAS_PHASE",
           "ss": "SOLID_SOLUTIONS", "kin": "KINETICS"}
KEYWORD = {"pp": "equilibrium_phases", "exch": "exchange", "surf": "surface", "gas": "gas_phase",
           "ss": "solid_solutions", "kin": "kinetics", "reaction": "reaction"}

# ---------------------------------------------------------------------------------------------- database pools
# cations/anions: element -> (charge used for the balance budget, max molality)
DB = {
    "phreeqc.dat": {
        "cations": {"Na": (1, 0.5), "K": (1, 0.2), "Ca": (2, 0.05), "Mg": (2, 0.05), "Sr": (2, 0.002), "Ba": (2, 1e-5)},
        "anions": {"S(6)": (2, 0.03), "C(4)": (2, 0.01), "N(5)": (1, 0.01)},
        "neutral": {"Si": 5e-4},
        "redox": {"Fe": 1e-4},
        "react": ["NaCl", "KCl", "CaCl2", "MgCl2", "Na2SO4", "K2SO4", "NaHCO3", "CO2", "HCl", "NaOH", "H2O", "CaSO4",
                  "SrCl2", "Na2CO3", "Ca(OH)2", "KNO3", "Calcite", "Gypsum", "Halite", "Dolomite", "Sylvite", "Anhydrite"],
        "react_redox": ["CH2O", "O2"],
        "minerals": ["Calcite", "Aragonite", "Dolomite", "Gypsum", "Anhydrite", "Celestite", "Strontianite", "Barite",
                     "Witherite", "Halite", "Sylvite", "Quartz", "Chalcedony", "SiO2(a)", "Mirabilite", "Thenardite",
                     "Epsomite", "Arcanite"],
        "minerals_fe": ["Siderite", "Goethite", "Fe(OH)3(a)", "Hematite"],
        "pp_gases": ["CO2(g)", "O2(g)"],
        "gas": ["CO2(g)", "N2(g)", "O2(g)", "H2O(g)", "Ntg(g)", "Mtg(g)"],
        "ss_sets": [["Calcite", "Strontianite"], ["Anhydrite", "Celestite", "Barite"], ["Barite", "Celestite"],
                    ["Calcite", "Strontianite", "Witherite"], ["Aragonite", "Strontianite"], ["Halite", "Sylvite"],
                    ["Gypsum", "Celestite"]],
        "exch": {"NaX": 1, "KX": 1, "CaX2": 2, "MgX2": 2, "SrX2": 2, "HX": 1},
    },
    "wateq4f.dat": {
        "cations": {"Na": (1, 0.5), "K": (1, 0.2), "Ca": (2, 0.05), "Mg": (2, 0.05), "Sr": (2, 0.002), "Ba": (2, 1e-5)},
        "anions": {"S(6)": (2, 0.03), "C(4)": (2, 0.01), "N(5)": (1, 0.01), "F": (1, 1e-4)},
        "neutral": {"Si": 5e-4},
        "redox": {"Fe": 1e-4},
        "react": ["NaCl", "KCl", "CaCl2", "MgCl2", "Na2SO4", "K2SO4", "NaHCO3", "CO2", "HCl", "NaOH", "H2O", "CaSO4",
                  "SrCl2", "Na2CO3", "Ca(OH)2", "KNO3", "Calcite", "Gypsum", "Halite", "Dolomite", "Magnesite", "Brucite"],
        "react_redox": ["CH2O", "O2"],
        "minerals": ["Calcite", "Aragonite", "Dolomite", "Gypsum", "Anhydrite", "Celestite", "Strontianite", "Barite",
                     "Witherite", "Halite", "Magnesite", "Brucite", "Quartz", "Chalcedony", "SiO2(a)", "Mirabilite",
                     "Thenardite", "Epsomite", "Fluorite", "Nahcolite", "Portlandite", "Nesquehonite"],
        "minerals_fe": ["Siderite", "Goethite", "Fe(OH)3(a)", "Hematite"],
        "pp_gases": ["CO2(g)", "O2(g)"],
        "gas": ["CO2(g)", "N2(g)", "O2(g)", "H2O(g)"],
        "ss_sets": [["Calcite", "Strontianite"], ["Anhydrite", "Celestite", "Barite"], ["Barite", "Celestite"],
                    ["Calcite", "Magnesite"], ["Aragonite", "Strontianite", "Witherite"]],
        "exch": {"NaX": 1, "KX": 1, "CaX2": 2, "MgX2": 2, "SrX2": 2, "HX": 1},
    },
    "pitzer.dat": {
        "cations": {"Na": (1, 2.0), "K": (1, 0.5), "Ca": (2, 0.1), "Mg": (2, 0.5), "Sr": (2, 0.002), "Ba": (2, 1e-5)},
        "anions": {"S(6)": (2, 0.1), "C(4)": (2, 0.01), "Br": (1, 0.01), "B": (1, 0.005)},
        "neutral": {"Si": 5e-4},
        "redox": {},
        "react": ["NaCl", "KCl", "CaCl2", "MgCl2", "Na2SO4", "K2SO4", "NaHCO3", "CO2", "HCl", "NaOH", "H2O", "CaSO4",
                  "SrCl2", "Na2CO3", "MgSO4", "Calcite", "Gypsum", "Halite", "Dolomite", "Sylvite", "Anhydrite", "Epsomite"],
        "react_redox": [],
        "minerals": ["Calcite", "Aragonite", "Dolomite", "Gypsum", "Anhydrite", "Celestite", "Barite", "Halite", "Sylvite",
                     "Magnesite", "Brucite", "Quartz", "Chalcedony", "SiO2(a)", "Mirabilite", "Thenardite", "Epsomite",
                     "Arcanite", "Glauberite", "Bischofite", "Carnallite", "Nahcolite", "Hexahydrite", "Kieserite",
                     "Polyhalite", "Syngenite", "Bloedite", "Portlandite"],
        "minerals_fe": [],
        "pp_gases": ["CO2(g)"],
        "gas": ["CO2(g)", "H2O(g)", "Ntg(g)", "Mtg(g)", "Oxg(g)"],
        "ss_sets": [["Anhydrite", "Celestite", "Barite"], ["Barite", "Celestite"], ["Halite", "Sylvite"],
                    ["Calcite", "Magnesite"], ["Epsomite", "Hexahydrite"]],
        "exch": {"NaX": 1, "KX": 1, "CaX2": 2, "MgX2": 2, "SrX2": 2, "HX": 1},
    },
}

RATES_TEXT = """RATES
 r_first
 -start
 10 rate = parm(1) * m
 20 save rate * time
 -end
 r_const
 -start
 10 if (m <= 0) then goto 30
 20 rate = parm(1)
 30 save rate * time
 -end
 r_ratio
 -start
 10 rate = parm(1) * (m / m0) ^ 0.67
 20 save rate * time
 -end
 r_unguarded
 -start
 10 save parm(1) * time
 -end
 r_uptake
 -start
 10 save -parm(1) * time
 -end
"""

EXTRA_PHASES = """PHASES
Fix_pH
 H+ = H+
 log_k 0
"""

# proton exchange: wateq4f.dat defines HX; phreeqc.dat carries the same definition commented out, pitzer.dat has none.
# The generated input defines it (documented EXCHANGE_SPECIES syntax) so that exchangers hold H - otherwise the H/O
# branches of the exchanger bookkeeping are never exercised by these databases.
EXTRA_EXCHANGE = {"phreeqc.dat": "EXCHANGE_SPECIES\n H+ + X- = HX\n -log_k 1.0\n -gamma 9.0 0",
                  "pitzer.dat": "EXCHANGE_SPECIES\n H+ + X- = HX\n -log_k 1.0",
                  "wateq4f.dat": ""}

KNOBS = "KNOBS\n -convergence_tolerance 1e-12\n -iterations 300"


def ss_with_fixed_volume_gas(case):
    """True when some step reacts SOLID_SOLUTIONS together with a fixed-volume GAS_PHASE (defined or carried).
    Known finding on the pinned tree (C02): with `KNOBS -iterations` > 100 the engine switches such a system to
    numerical derivatives at iteration 100 by calling prep() in the middle of the Newton loop (model.cpp
    calc_gas_pressures); the mass-balance totals restart from the initial composition while the solid-solution
    components keep the moles they had reached, so mass is lost or created.  With the default limit of 100 iterations
    the attempt fails at iteration 101 and the engine's own retry restarts cleanly."""
    last = {}
    for stp in case["steps"]:
        for kd in ("ss", "gas"):
            if kd not in stp:
                last.pop(kd, None)
            elif isinstance(stp[kd], dict):
                last[kd] = stp[kd]
        if "ss" in last and "gas" in last and last["gas"].get("fixed") == "volume":
            return True
    return False


# other documented solver settings: same chemistry, another Newton path
KNOBS_VARIANTS = ["",                                                   # engine defaults (step sizes 100 / 10)
                  "\n -step_size 3\n -pe_step_size 2",
                  "\n -step_size 30\n -pe_step_size 7",
                  "\n -step_size 10\n -pe_step_size 5\n -delay_mass_water true",
                  "\n -step_size 10\n -pe_step_size 5\n -tolerance 1e-16",
                  "\n -step_size 2\n -pe_step_size 1.5\n -diagonal_scale true"]


def knobs_text(case):
    """KNOBS block of a case: convergence tolerance 1e-12 (DESIGN 4.2) and 300 iterations, except that cases prone to the
    known finding above keep the default 100 iterations (exclusion by construction; the combination itself stays in the
    domain).  `knobs_iterations` in the case overrides (used only by the known-finding replay)."""
    it = case.get("knobs_iterations")
    if it is None:
        it = 100 if ss_with_fixed_volume_gas(case) else 300
    txt = "KNOBS\n -convergence_tolerance 1e-12\n -iterations %d" % int(it)
    # Known finding (C02, replays/C02/known/trace-phase-inventory-rounded-after-1e6-mol-newton-excursion.json and
    # carbon-inventory-rounded-after-1e7-mol-newton-excursion.json): with the default step sizes (100 / 10) one Newton
    # step can move 1e6..1e7 mol into a pure phase or solid solution and back; the element's dissolved total is then the
    # difference of two such numbers and returns short by their unit of rounding (1e-10..1e-9 mol, > 1e-6 of a trace
    # inventory).  Which input does this cannot be told beforehand (about 1 case in 4000), so every generated input damps
    # the Newton step with the documented options -step_size 10 / -pe_step_size 5 (what the engine's own first retry
    # uses).  `knobs_default_step_size` in a case keeps the defaults (used only by known-finding replays).
    # `knobs_variant: i` chooses KNOBS_VARIANTS[i] instead (C02 uses it for its second run of a case, see c02.check_case).
    if case.get("knobs_variant") is not None:
        txt += KNOBS_VARIANTS[int(case["knobs_variant"])]
    elif not case.get("knobs_default_step_size"):
        txt += "\n -step_size 10\n -pe_step_size 5"
    return txt


# ---------------------------------------------------------------------------------------------- strategies
def _some(draw, pool, lo, hi):
    pool = list(pool)
    hi = min(hi, len(pool))
    lo = min(lo, hi)
    return draw(st.lists(st.sampled_from(pool), min_size=lo, max_size=hi, unique=True))


@st.composite
def solution(draw, db, n, profile):
    cfg = DB[db]
    cats = _some(draw, sorted(cfg["cations"]), 1, 4)
    ans = _some(draw, sorted(cfg["anions"]), 0, 3)
    comps = []
    ceq = 0.0
    for e in cats:
        z, hi = cfg["cations"][e]
        c = draw(cg.logu(hi * 1e-4, hi, 3))
        comps.append([e, c])
        ceq += z * c
    aeq = 0.0
    acomps = []
    for e in ans:
        z, hi = cfg["anions"][e]
        c = draw(cg.logu(hi * 1e-4, hi, 3))
        acomps.append([e, c, z])
        aeq += z * c
    # anions other than Cl take at most 80 % of the cation equivalents, Cl closes the balance
    if aeq > 0.8 * ceq:
        f = 0.8 * ceq / aeq
        for a in acomps:
            a[1] = float("%.3g" % (a[1] * f))
        aeq = sum(a[1] * a[2] for a in acomps)
    for a in acomps:
        if a[1] > 0:
            comps.append([a[0], a[1]])
    balance = draw(st.sampled_from(["Cl", "Cl", "none", "pH"]))
    cl = max(ceq - aeq, 1e-6)
    if balance == "none":
        cl = float("%.4g" % (cl * draw(cg.uni(0.95, 1.05, 3))))
    else:
        cl = float("%.4g" % cl)
    comps.append(["Cl", cl])
    for e in _some(draw, sorted(cfg["neutral"]), 0, 1):
        comps.append([e, draw(cg.logu(cfg["neutral"][e] * 1e-2, cfg["neutral"][e], 3))])
    if cfg["redox"] and draw(st.integers(0, 9)) == 0:
        e = draw(st.sampled_from(sorted(cfg["redox"])))
        comps.append([e, draw(cg.logu(cfg["redox"][e] * 1e-2, cfg["redox"][e], 3))])
    t = 25.0
    if draw(st.integers(0, 3 if profile == "c03" else 5)) == 0:
        t = draw(cg.uni(0.0, 100.0, 3)) if profile == "c03" else draw(cg.uni(5.0, 60.0, 3))
    return {"n": n, "temp": t, "pH": draw(cg.uni(5.0, 9.5, 3)), "water": draw(st.one_of(st.just(1.0), cg.logu(0.1, 10.0, 3))),
            "comps": comps, "balance": balance}


def render_solution(s):
    L = ["SOLUTION %d" % s["n"], " units mol/kgw", " temp %s" % fmt(s["temp"]),
         " pH %s%s" % (fmt(s["pH"]), " charge" if s["balance"] == "pH" else ""), " pe 4"]
    for e, c in s["comps"]:
        L.append(" %s %s%s" % (e, fmt(c), " charge" if (e == "Cl" and s["balance"] == "Cl") else ""))
    L.append(" -water %s" % fmt(s["water"]))
    return "\n".join(L)


@st.composite
def reaction(draw, db, redox_ok):
    cfg = DB[db]
    pool = list(cfg["react"]) + (cfg["react_redox"] if redox_ok else [])
    names = _some(draw, pool, 1, 3)
    reactants = [[nm, draw(st.sampled_from([1.0, 1.0, 0.5, 2.0, 0.25, 3.0]))] for nm in names]
    units = draw(st.sampled_from(["moles", "moles", "mmol", "umol"]))
    scale = {"moles": 1.0, "mmol": 1e3, "umol": 1e6}[units]
    r = {"reactants": reactants, "units": units}
    top = draw(cg.logu(1e-6, 1.0, 3))
    if draw(st.booleans()):
        k = draw(st.integers(1, 4))
        fr = sorted(draw(st.lists(cg.uni(0.05, 1.0, 2), min_size=k, max_size=k)))
        if draw(st.integers(0, 3)) == 0:
            fr = fr[::-1]          # a non-monotonic cumulative list is legal too
        r["list"] = [float("%.4g" % (top * f * scale)) for f in fr]
    else:
        r["total"] = float("%.4g" % (top * scale))
        r["n"] = draw(st.integers(1, 4))
    return r


def render_reaction(r, n):
    L = ["REACTION %d" % n]
    for nm, c in r["reactants"]:
        L.append(" %s %s" % (nm, fmt(c)))
    if "list" in r:
        L.append(" " + " ".join(fmt(x) for x in r["list"]) + " " + r["units"])
    else:
        L.append(" %s %s in %d steps" % (fmt(r["total"]), r["units"], r["n"]))
    return "\n".join(L)


def reaction_steps(r):
    return len(r["list"]) if "list" in r else r["n"]


def reaction_total(r, incr, nsteps):
    """moles of reaction progress over the whole batch calculation of `nsteps` steps (manual, REACTION and
    INCREMENTAL_REACTIONS): cumulative lists end at their last entry; increments add up; when other keywords define
    more steps than REACTION the last amount is re-used (list) or nothing more is added (`in n steps`, incremental)."""
    f = {"moles": 1.0, "mmol": 1e-3, "umol": 1e-6}[r["units"]]
    if "list" in r:
        L = r["list"]
        if not incr:
            return f * L[-1]
        return f * (sum(L) + (nsteps - len(L)) * L[-1])
    return f * r["total"]


# alternative reactants (documented syntax `phase target formula amount`): the reactant shares an element with the phase,
# so adding or removing it can reach the target; every element exists in the three databases used
ALT_FOR = {"Gypsum": ["CaSO4", "CaCl2", "Na2SO4"], "Anhydrite": ["CaSO4", "CaCl2", "Na2SO4"],
           "Calcite": ["CaCO3", "CaCl2", "Na2CO3", "NaHCO3"], "Aragonite": ["CaCO3", "CaCl2", "Na2CO3"],
           "Celestite": ["SrCl2", "Na2SO4"], "Barite": ["Na2SO4", "K2SO4"], "Strontianite": ["SrCl2", "Na2CO3"],
           "Magnesite": ["MgCl2", "Na2CO3"], "Dolomite": ["CaCl2", "MgCl2", "Na2CO3"]}
ALT_ACIDS = ["HCl", "H2SO4"]
ALT_BASES = ["NaOH", "KOH", "Na2CO3"]


def _fix_ph(draw, ph_now, force_other_than=None):
    """pseudo-phase Fix_pH (H+ = H+, log_k 0; defined in the PHASES block of every input) with an acid or a base as
    alternative reactant and a target on the side the reactant can reach from ph_now"""
    pool = [a for a in ALT_ACIDS + ALT_BASES if a != force_other_than]
    alt = draw(st.sampled_from(pool))
    if alt in ALT_BASES:
        target = min(ph_now + draw(cg.uni(0.5, 2.0, 2)), 11.5)
    else:
        target = max(ph_now - draw(cg.uni(0.5, 2.0, 2)), 3.0)
    return {"name": "Fix_pH", "si": -float("%.3g" % target), "moles": 10.0, "opt": "", "alt": alt}


@st.composite
def pp_variant(draw, prev):
    """a new EQUILIBRIUM_PHASES definition with the *same phase list* as the previous one of the history and one thing
    changed: another alternative formula, a formula added, a formula removed, or another amount.  The engine re-uses the
    equations of the previous calculation when it judges the model unchanged (prep.cpp check_same_model), and the
    alternative formula is part of that judgement - only such consecutive set-ups exercise it."""
    phases = [dict(p) for p in prev["phases"]]
    with_alt = [i for i, p in enumerate(phases) if p["alt"]]
    can_add = [i for i, p in enumerate(phases) if not p["alt"] and not p["opt"] and p["name"] in ALT_FOR]
    removable = [i for i in with_alt if phases[i]["name"] != "Fix_pH"]     # Fix_pH without formula would add bare H+
    kind = draw(st.sampled_from(["alt_changed", "alt_changed", "alt_changed", "alt_added", "alt_removed", "amount_changed"]))
    if kind == "alt_changed" and not with_alt:
        kind = "alt_added"
    if kind == "alt_added" and not can_add:
        kind = "alt_changed" if with_alt else "amount_changed"
    if kind == "alt_removed" and not removable:
        kind = "alt_changed" if with_alt else "amount_changed"
    if kind == "alt_changed":
        i = draw(st.sampled_from(with_alt))
        p = phases[i]
        if p["name"] == "Fix_pH":
            phases[i] = draw(_fix_ph_strategy(-p["si"], p["alt"]))
        else:
            p["alt"] = draw(st.sampled_from([a for a in ALT_FOR[p["name"]] if a != p["alt"]]))
            if draw(st.booleans()):
                p["si"] = draw(cg.uni(-1.5, 0.0, 2))
    elif kind == "alt_added":
        p = phases[draw(st.sampled_from(can_add))]
        p["alt"] = draw(st.sampled_from(ALT_FOR[p["name"]]))
        p["moles"] = max(p["moles"], 0.01)
    elif kind == "alt_removed":
        phases[draw(st.sampled_from(removable))]["alt"] = ""
    else:
        p = phases[draw(st.integers(0, len(phases) - 1))]
        p["moles"] = draw(st.one_of(st.just(10.0), cg.logu(1e-3, 10.0, 3))) if p["alt"] else \
            draw(st.one_of(st.just(0.0), st.just(10.0), cg.logu(1e-6, 10.0, 3)))
    return {"phases": phases, "variant": kind}


@st.composite
def _fix_ph_strategy(draw, ph_now, other_than=None):
    return _fix_ph(draw, ph_now, other_than)


@st.composite
def pp(draw, db, profile, has_fe, ph0):
    cfg = DB[db]
    pool = list(cfg["minerals"]) + (cfg["minerals_fe"] if has_fe else [])
    hi = 6 if profile == "c03" else 4
    names = _some(draw, pool, 1, hi)
    phases = []
    for nm in names:
        si = draw(st.sampled_from([0.0, 0.0, 0.0, None]))
        if si is None:
            si = draw(cg.uni(-3.0, 1.0, 3))
        moles = draw(st.one_of(st.just(0.0), st.just(10.0), cg.logu(1e-6, 10.0, 3), cg.logu(1e-6, 1e-3, 3)))
        opt = draw(st.sampled_from(["", "", "", "dissolve_only", "precipitate_only", "force_equality"] if profile == "c03"
                                   else ["", "", "", "", "dissolve_only", "precipitate_only"]))
        if opt == "force_equality" and moles == 0.0:
            opt = ""
        phases.append({"name": nm, "si": si, "moles": moles, "opt": opt, "alt": ""})
    if cfg["pp_gases"] and draw(st.integers(0, 3)) == 0:
        g = draw(st.sampled_from(cfg["pp_gases"]))
        if g != "O2(g)" or True:
            phases.append({"name": g, "si": draw(cg.uni(-3.5, -0.3, 3)) if g == "CO2(g)" else draw(cg.uni(-3.0, -0.7, 3)),
                           "moles": draw(st.sampled_from([10.0, 1.0, 0.01, 0.0])), "opt": "", "alt": ""})
    # alternative formula (reactant added or removed to reach the target of the phase)
    k = draw(st.integers(0, 9))
    if k in (0, 1) and profile != "c03":
        cand = [p for p in phases if p["name"] in ALT_FOR and not p["opt"]]
        if cand:
            p = cand[0]
            p["alt"] = draw(st.sampled_from(ALT_FOR[p["name"]]))
            p["moles"] = max(p["moles"], 0.01)
    elif k in (2, 3) and profile != "c03":
        phases.append(_fix_ph(draw, ph0))
    return {"phases": phases}


def render_pp(d, n):
    L = ["EQUILIBRIUM_PHASES %d" % n]
    for p in d["phases"]:
        if p["alt"]:
            L.append(" %s %s %s %s" % (p["name"], fmt(p["si"]), p["alt"], fmt(p["moles"])))
        else:
            L.append(" %s %s %s %s" % (p["name"], fmt(p["si"]), fmt(p["moles"]), p["opt"]))
    return "\n".join(L)


@st.composite
def exch(draw, db, eq_sol):
    cfg = DB[db]
    if draw(st.booleans()):
        return {"equil": eq_sol, "X": draw(cg.logu(1e-4, 1.0, 3))}
    names = _some(draw, sorted(cfg["exch"]), 1, 3)
    return {"equil": None, "species": [[nm, draw(cg.logu(1e-4, 0.05 if nm == "HX" else 0.5, 3))] for nm in names]}


def render_exch(d, n):
    L = ["EXCHANGE %d" % n]
    if d["equil"] is not None:
        L.append(" X %s" % fmt(d["X"]))
        L.append(" -equilibrate %d" % d["equil"])
    else:
        for nm, a in d["species"]:
            L.append(" %s %s" % (nm, fmt(a)))
    return "\n".join(L)


def exch_capacity(d, db):
    if d["equil"] is not None:
        return d["X"]
    return sum(a * DB[db]["exch"][nm] for nm, a in d["species"])


@st.composite
def surf(draw, eq_sol, balanced, db="phreeqc.dat"):
    """Known finding on the pinned tree (C02): a SURFACE that has an explicit constant-thickness diffuse layer
    (-donnan / -diffuse_layer) and has never been equilibrated gets its diffuse-layer water (area x thickness) *in
    addition to* the water of the solution when it first reacts: 0.67 mol H per 6 g of layer appear from nowhere.
    Seen with phreeqc.dat, wateq4f.dat and pitzer.dat; only `-donnan debye_lengths` and the numerical-derivative path
    (pitzer.dat + fixed-volume gas phase) take the water out of the solution instead.  Such surfaces are therefore always
    defined with -equilibrate, for every database (the initial-surface calculation is not a reaction step);
    `dl_equil_forced` marks the cases where the draw asked for a plain definition.  `db` is kept for callers."""
    model = draw(st.sampled_from(["no_edl", "ddl", "ddl", "donnan", "donnan", "diffuse"] if balanced else
                                 ["no_edl", "ddl", "ddl", "donnan", "donnan"]))
    plain = not (draw(st.integers(0, 3)) > 0 or model == "diffuse")
    d = {"model": model, "w": draw(cg.logu(1e-5, 1e-2, 3)), "s": draw(st.one_of(st.just(0.0), cg.logu(1e-6, 1e-3, 3))),
         "area": draw(st.sampled_from([600.0, 600.0, 100.0, 50.0])), "grams": draw(cg.logu(0.1, 10.0, 3)),
         "equil": None if plain else eq_sol}
    if plain and model == "donnan":
        d["equil"] = eq_sol
        d["dl_equil_forced"] = True
    if model == "donnan":
        d["thick"] = draw(st.sampled_from([None, 1e-8, 1e-9, 1e-7]))
        d["oci"] = draw(st.integers(0, 4)) == 0
    elif model == "diffuse":
        d["thick"] = draw(st.sampled_from([None, 1e-8]))
        d["oci"] = draw(st.integers(0, 4)) == 0
    return d


def render_surf(d, n):
    L = ["SURFACE %d" % n]
    if d["equil"] is not None:
        L.append(" -equilibrate %d" % d["equil"])
        L.append(" Hfo_w %s %s %s" % (fmt(d["w"]), fmt(d["area"]), fmt(d["grams"])))
        if d["s"] > 0:
            L.append(" Hfo_s %s" % fmt(d["s"]))
    else:
        L.append(" Hfo_wOH %s %s %s" % (fmt(d["w"]), fmt(d["area"]), fmt(d["grams"])))
        if d["s"] > 0:
            L.append(" Hfo_sOH %s" % fmt(d["s"]))
    m = d["model"]
    if m == "no_edl":
        L.append(" -no_edl")
    elif m == "donnan":
        L.append(" -donnan" + (" %s" % fmt(d["thick"]) if d.get("thick") else ""))
        if d.get("oci"):
            L.append(" -only_counter_ions true")
    elif m == "diffuse":
        L.append(" -diffuse_layer" + (" %s" % fmt(d["thick"]) if d.get("thick") else ""))
        if d.get("oci"):
            L.append(" -only_counter_ions true")
    return "\n".join(L)


@st.composite
def gas(draw, db, eq_sol, redox_ok):
    cfg = DB[db]
    pool = [g for g in cfg["gas"] if redox_ok or g not in ("O2(g)",)]
    names = _some(draw, pool, 1, 4)
    comps = [[g, draw(st.one_of(st.just(0.0), cg.logu(1e-4, 1.0, 3)))] for g in names]
    if all(c[1] == 0.0 for c in comps):
        comps[0][1] = 0.1
    d = {"fixed": draw(st.sampled_from(["pressure", "volume"])), "comps": comps,
         "volume": draw(cg.logu(0.1, 10.0, 3)), "equil": None}
    if d["fixed"] == "pressure":
        d["pressure"] = draw(cg.logu(0.5, 5.0, 3))
    elif draw(st.integers(0, 3)) == 0:
        d["equil"] = eq_sol
    return d


def render_gas(d, n, temp):
    L = ["GAS_PHASE %d" % n]
    if d["fixed"] == "pressure":
        L += [" -fixed_pressure", " -pressure %s" % fmt(d["pressure"])]
    else:
        L += [" -fixed_volume"]
        if d["equil"] is not None:
            L.append(" -equilibrate %d" % d["equil"])
    L.append(" -volume %s" % fmt(d["volume"]))
    L.append(" -temperature %s" % fmt(temp))
    for g, p in d["comps"]:
        L.append(" %s %s" % (g, fmt(p)))
    return "\n".join(L)


@st.composite
def ss(draw, db, profile):
    cfg = DB[db]
    k = draw(st.integers(1, 2))
    sets = draw(st.lists(st.sampled_from(list(range(len(cfg["ss_sets"])))), min_size=k, max_size=k, unique=True))
    out = []
    used = set()
    for j, si in enumerate(sets):
        comps = [c for c in cfg["ss_sets"][si] if c not in used]
        if len(comps) < 2:
            continue
        nonideal = draw(st.integers(0, 2)) == 0
        if nonideal:
            comps = comps[:2]
        used.update(comps)
        amounts = [draw(st.one_of(st.just(0.0), cg.logu(1e-6, 0.1, 3))) for _ in comps]
        s = {"name": "SS%d" % j, "comps": [[c, a] for c, a in zip(comps, amounts)], "nonideal": None}
        if nonideal:
            s["nonideal"] = [draw(st.sampled_from(["Gugg_nondim", "Gugg_kJ"])), draw(cg.uni(-1.0, 2.5, 3)),
                             draw(st.one_of(st.just(0.0), cg.uni(-0.5, 0.5, 2)))]
        out.append(s)
    if not out:
        c = cfg["ss_sets"][sets[0]][:2]
        out = [{"name": "SS0", "comps": [[c[0], 0.01], [c[1], 0.0]], "nonideal": None}]
    return {"sss": out}


def render_ss(d, n, suffix=""):
    """suffix: appended to every solid-solution name.  plan() passes "c<cell>" so that two SOLID_SOLUTIONS blocks defined
    in different steps of one history never share a name.  Known finding on the pinned tree (C02): the engine decides
    whether the equations of the previous calculation can be re-used by comparing solid solutions *by name only*
    (prep.cpp check_same_model); a second solid solution "SS0" with other components is then solved with the phases of
    the first one (0.1 mol Sylvite came back as 0.1 mol Strontianite)."""
    L = ["SOLID_SOLUTIONS %d" % n]
    for s in d["sss"]:
        L.append(" %s%s" % (s["name"], suffix))
        for c, a in s["comps"]:
            L.append("  -comp %s %s" % (c, fmt(a)))
        if s["nonideal"]:
            kind, a0, a1 = s["nonideal"]
            if kind == "Gugg_kJ":
                L.append("  -Gugg_kJ %s %s" % (fmt(float("%.4g" % (a0 * 2.479))), fmt(float("%.4g" % (a1 * 2.479)))))
            else:
                L.append("  -Gugg_nondim %s %s" % (fmt(a0), fmt(a1)))
    return "\n".join(L)


KIN_FORMULAS = ["NaCl", "KCl", "CaCl2", "Na2SO4", "NaHCO3", "CaSO4", "MgCl2", "Calcite", "Gypsum", "Halite", "H2O", "CO2"]


@st.composite
def kin(draw, db, uptake_ok=("H2O",)):
    """uptake_ok: formulas a rate with negative `save` (uptake from solution) may use - only substances every solution of
    the case holds in excess of the largest possible uptake (1e-5 mol); removing an element that is absent from the
    solution is unphysical input and the engine does not return from it (infinite step-halving loop, seen on the
    unchanged tree), so it is excluded by construction."""
    nr = draw(st.integers(1, 2))
    rates = draw(st.lists(st.sampled_from(["r_first", "r_const", "r_ratio", "r_unguarded", "r_uptake"]),
                          min_size=nr, max_size=nr, unique=True))
    top = draw(cg.logu(1.0, 1e5, 3))
    comps = []
    for r in rates:
        k = draw(st.integers(1, 2))
        f = [[nm, draw(st.sampled_from([1.0, 1.0, 0.5, 2.0]))] for nm in _some(draw, KIN_FORMULAS, k, k)]
        m0 = draw(cg.logu(1e-4, 1.0, 3))
        m = m0 if draw(st.booleans()) else float("%.3g" % (m0 * draw(cg.uni(0.1, 1.0, 2))))
        if r == "r_uptake":
            f = [[draw(st.sampled_from(sorted(uptake_ok))), 1.0]]
            parm = min(draw(cg.logu(1e-12, 1e-9, 2)), 1e-5 / top)
        elif r == "r_first":
            parm = draw(cg.logu(1e-8, 1e-3, 2))
        else:
            parm = draw(cg.logu(1e-10, 1e-5, 2)) * (100.0 if draw(st.integers(0, 4)) == 0 else 1.0)
        comps.append({"rate": r, "formula": f, "m0": m0, "m": m, "parm": float("%.3g" % parm)})
    # Every KINETICS block is integrated with the Runge-Kutta method (-cvode false).  With -cvode true the engine does
    # not return (100 % CPU, > 10 min, all four shards of a thorough run hung) whenever the chemistry of one integration
    # sub-step cannot be converged: set_and_run_wrapper() turns "failed on all parameter combinations" into MASS_BALANCE
    # for CVODE and the integrator retries without bound.  Seen with tiny, smooth demands as well (1e-8 mol taken from
    # 1 mol) - the same inputs return at once with Runge-Kutta (three of four with an ordinary convergence error) - and
    # with rates that overshoot the reactant (Fe + exchanger + 74 mol of Gypsum requested from 0.48 mol: hang or
    # segmentation fault).  A hang makes the whole run INCONCLUSIVE, so CVODE is excluded by construction; the draw is
    # kept and recorded as `cvode_forced_off` so that the evidence shows how often it was asked for.
    cv = draw(st.booleans())
    d = {"comps": comps, "cvode": False}
    if cv:
        d["cvode_forced_off"] = True
    if draw(st.booleans()):
        k = draw(st.integers(1, 3))
        d["times"] = [float("%.3g" % (top * (i + 1) / k)) for i in range(k)]
    else:
        d["total"] = top
        d["n"] = draw(st.integers(1, 3))
    return d


def kin_steps(d):
    return len(d["times"]) if "times" in d else d["n"]


def render_kin(d, n):
    L = ["KINETICS %d" % n]
    for c in d["comps"]:
        L.append(" %s" % c["rate"])
        L.append("  -formula " + " ".join("%s %s" % (nm, fmt(k)) for nm, k in c["formula"]))
        L.append("  -m0 %s" % fmt(c["m0"]))
        L.append("  -m %s" % fmt(c["m"]))
        L.append("  -parms %s" % fmt(c["parm"]))
        L.append("  -tol 1e-9")
    if "times" in d:
        L.append(" -steps " + " ".join(fmt(t) for t in d["times"]))
    else:
        L.append(" -steps %s in %d steps" % (fmt(d["total"]), d["n"]))
    L.append(" -cvode %s" % ("true" if d["cvode"] else "false"))
    return "\n".join(L)


# ---------------------------------------------------------------------------------------------- whole cases
def _neg_mix_ok(sols, parts):
    """a negative fraction is generated only when no element total of the mixture can become negative
    (all members are initial solutions; amounts = molality x water)"""
    tot = {}
    for ref, f in parts:
        if not isinstance(ref, int):
            return False
        s = sols[ref - 1]
        for e, c in s["comps"]:
            tot[e] = tot.get(e, 0.0) + f * c * s["water"]
        tot["_w"] = tot.get("_w", 0.0) + f * s["water"]
    pos = {}
    for ref, f in parts:
        if f > 0:
            s = sols[ref - 1]
            for e, c in s["comps"]:
                pos[e] = pos.get(e, 0.0) + f * c * s["water"]
    # Known finding on the pinned tree (C02, replays/C02/known/mix-negative-fraction-intensive-weights-nan.json): for a
    # negative fraction step.cpp add_mix() zeroes `intensive` but hands `intensive_water` = f*w / (sum of f*w) to
    # add_solution, so temperature, pH, pe ... of the mixture are weighted with -f*w/W: 1.0 x 0.237 kg - 0.15 x 1 kg gave
    # -18 C, pH -3.6 and a saved solution full of NaN with 0 errors.  Negative fractions are kept where the water they
    # remove is < 30 % of the water of the positive members (weights stay within [-0.43, 0]).
    wpos = sum(f * sols[ref - 1]["water"] for ref, f in parts if f > 0)
    return all(v > 0.2 * pos.get(k, 0.0) for k, v in tot.items() if k != "_w") and tot["_w"] > 0.05 and \
        tot["_w"] >= 0.7 * wpos and all(k in pos for k in tot if k != "_w")


@st.composite
def case_strategy(draw, profile="c02", dbs=("phreeqc.dat",)):
    db = draw(st.sampled_from(list(dbs)))
    ns = draw(st.integers(1, 3))
    sols = [draw(solution(db, i + 1, profile)) for i in range(ns)]
    has_fe = any(e == "Fe" for s in sols for e, _ in s["comps"])
    balanced = all(s["balance"] != "none" for s in sols)
    # substances that every initial solution holds with >= 1e-3 mol (uptake by a kinetic reactant stays <= 1e-5 mol)
    uptake_ok = ["H2O"]
    for salt, cat in (("NaCl", "Na"), ("KCl", "K")):
        if all(any(e == cat and c * s["water"] >= 1e-3 for e, c in s["comps"]) and
               any(e == "Cl" and c * s["water"] >= 1e-3 for e, c in s["comps"]) for s in sols):
            uptake_ok.append(salt)
    nsteps = draw(st.sampled_from([1, 1, 2, 2, 3, 4] if profile == "c02" else [1, 1, 1, 2]))
    steps = []
    prev_kinds = set()
    resolved = {}          # kind -> definition in force (own or carried), for pp and gas
    for k in range(nsteps):
        stp = {"mode": draw(st.sampled_from(["batch", "batch", "cells"])), "incr": draw(st.booleans())}
        # ---- "same phase list, one thing changed" step: reacts the previous product with a variant of the previous
        # EQUILIBRIUM_PHASES definition; the other reactants are carried over or left out, so that nothing between the
        # two reaction calculations (no initial exchange / surface / gas calculation) forces the engine to rebuild its model
        if profile == "c02" and k > 0 and "pp" in prev_kinds and isinstance(resolved.get("pp"), dict) and \
                draw(st.integers(0, 2)) == 0:
            stp["src"] = {"kind": "sol", "from": "prev"}
            stp["pp"] = draw(pp_variant(resolved["pp"]))
            stp["pp_variant"] = stp["pp"].pop("variant")
            for kd in KINDS:
                if kd in prev_kinds and kd not in ("pp", "reaction") and draw(st.booleans()):
                    stp[kd] = "carry"
            resolved["pp"] = stp["pp"]
            for kd in ("gas",):
                if kd not in stp:
                    resolved.pop(kd, None)
            prev_kinds = {kd for kd in KINDS if kd in stp and kd != "reaction"}
            steps.append(stp)
            continue
        # ---- solution or mix
        refs = list(range(1, ns + 1)) + (["prev"] if k > 0 else [])
        if k > 0 and draw(st.integers(0, 3)) > 0:
            main = "prev"
        else:
            main = draw(st.sampled_from(refs))
        if len(refs) >= 2 and draw(st.integers(0, 2)) == 0:
            others = [r for r in refs if r != main]
            extra = draw(st.lists(st.sampled_from(others), min_size=1, max_size=2, unique=True))
            parts = [[main, draw(cg.uni(0.1, 1.5, 2))]] + [[r, draw(cg.uni(0.05, 1.5, 2))] for r in extra]
            if draw(st.integers(0, 5)) == 0:
                cand = [list(p) for p in parts]
                cand[-1][1] = -float("%.2g" % (cand[-1][1] * 0.2))
                if _neg_mix_ok(sols, cand):
                    parts = cand
            stp["src"] = {"kind": "mix", "parts": parts}
        else:
            stp["src"] = {"kind": "sol", "from": main}
        eq_ref = main
        ph0 = 7.0 if main == "prev" else sols[main - 1]["pH"]
        temp0 = 25.0 if main == "prev" else sols[main - 1]["temp"]
        # ---- reactants
        if profile == "c03":
            want = set(["pp"]) if draw(st.integers(0, 5)) > 0 else set()
            for kd, p in (("exch", 3), ("surf", 3), ("ss", 3), ("reaction", 3), ("gas", 8), ("kin", 10)):
                if draw(st.integers(0, p - 1)) == 0:
                    want.add(kd)
            if not want:
                want.add("pp")
        else:
            nk = draw(st.sampled_from([1, 2, 2, 3, 3, 4, 5, 7]))
            want = set(_some(draw, KINDS, nk, nk))
        for kd in KINDS:
            if kd not in want:
                continue
            if kd in prev_kinds and kd != "reaction" and draw(st.integers(0, 2)) > 0:
                stp[kd] = "carry"
                continue
            if kd == "reaction":
                stp[kd] = draw(reaction(db, has_fe and False))
            elif kd == "pp":
                stp[kd] = draw(pp(db, profile, has_fe, ph0))
            elif kd == "exch":
                stp[kd] = draw(exch(db, eq_ref))
            elif kd == "surf":
                stp[kd] = draw(surf(eq_ref, balanced and eq_ref != "prev", db))
            elif kd == "gas":
                stp[kd] = draw(gas(db, eq_ref, True))
                stp[kd]["temp"] = temp0
            elif kd == "ss":
                stp[kd] = draw(ss(db, profile))
            elif kd == "kin":
                stp[kd] = draw(kin(db, uptake_ok))
        # REACTION_TEMPERATURE also defines reaction steps: with up to 5 entries it regularly asks for more steps than
        # REACTION / KINETICS define (re-use of the last amount, incremental or cumulative)
        if draw(st.integers(0, 3)) == 0:
            stp["temps"] = [draw(cg.uni(5.0, 80.0, 3)) for _ in range(draw(st.integers(1, 5)))]
        # Known finding on the pinned tree (C02, replays/C02/known/ba-deficit-with-o2-as-pure-phase-and-in-gas-phase.json):
        # O2(g) held as a pure phase *and* as a component of a fixed-pressure gas phase in the same cell, next to a pure
        # phase with 0 mol (Barite), ends 1.45e-9 mol short of Ba (4.6e-4 of its inventory) in a run without error.
        # The combination is excluded by construction: O2(g) leaves the newly defined one of the two (counted).
        for kd in ("pp", "gas"):
            if isinstance(stp.get(kd), dict):
                resolved[kd] = stp[kd]
            elif kd not in stp:
                resolved.pop(kd, None)
        if "pp" in stp and "gas" in stp and \
                any(p["name"] == "O2(g)" for p in resolved["pp"]["phases"]) and \
                any(g == "O2(g)" for g, _ in resolved["gas"]["comps"]):
            if isinstance(stp["pp"], dict):
                stp["pp"]["phases"] = [p for p in stp["pp"]["phases"] if p["name"] != "O2(g)"]
            else:
                rest = [c for c in stp["gas"]["comps"] if c[0] != "O2(g)"]
                if not rest or all(c[1] == 0.0 for c in rest):
                    rest = [["CO2(g)", 0.1]]
                stp["gas"]["comps"] = rest
            stp["o2_pp_and_gas_resolved"] = True
        prev_kinds = {kd for kd in KINDS if kd in stp and kd != "reaction"}
        steps.append(stp)
    return {"db": db, "sols": sols, "steps": steps, "profile": profile}


# ---------------------------------------------------------------------------------------------- planning / rendering
def plan(case, punch=None):
    """punch: optional callable(step_index, step_dict, info) -> text (SELECTED_OUTPUT/USER_PUNCH block) added to the run
    simulation of every step"""
    db = case["db"]
    sim0 = [knobs_text(case), RATES_TEXT.rstrip(), EXTRA_PHASES.rstrip()]
    if EXTRA_EXCHANGE.get(db):
        sim0.append(EXTRA_EXCHANGE[db])
    for s in case["sols"]:
        sim0.append(render_solution(s))
    sim0.append("END")
    out = {"sim0": "\n".join(sim0) + "\n", "steps": []}
    prev = None        # info of the previous step
    for k, stp in enumerate(case["steps"]):
        c = 10 * (k + 1)
        cells = stp["mode"] == "cells"
        d = c if cells else c + 1

        def resolve(ref):
            if ref == "prev":
                return prev["saved"]
            return ref
        setup, run = [], []
        before, after = [], []
        # solution / mix
        if stp["src"]["kind"] == "sol":
            src = resolve(stp["src"]["from"])
            setup.append("COPY solution %d %d" % (src, c))
            before.append(["SOLUTION", c, 1.0])
            eq_sol = src
        else:
            L = ["MIX %d" % c]
            for ref, f in stp["src"]["parts"]:
                L.append(" %d %s" % (resolve(ref), fmt(f)))
                before.append(["SOLUTION", resolve(ref), f])
            setup.append("\n".join(L))
            eq_sol = resolve(stp["src"]["parts"][0][0])
        kinds = []
        nst = 1
        defs = {}
        for kd in KINDS:
            if kd not in stp:
                continue
            spec = stp[kd]
            kinds.append(kd)
            if spec == "carry":
                srcn = prev["cell"] if kd == "kin" else prev["saved"]
                setup.append("COPY %s %d %d" % (KEYWORD[kd], srcn, c))
                spec = prev["defs"][kd]
            else:
                if kd == "reaction":
                    setup.append(render_reaction(spec, c))
                elif kd == "pp":
                    setup.append(render_pp(spec, c))
                elif kd == "exch":
                    sp = dict(spec)
                    if sp["equil"] is not None:
                        sp["equil"] = eq_sol
                    setup.append(render_exch(sp, c))
                elif kd == "surf":
                    sp = dict(spec)
                    if sp["equil"] is not None:
                        sp["equil"] = eq_sol
                    setup.append(render_surf(sp, c))
                elif kd == "gas":
                    sp = dict(spec)
                    if sp["equil"] is not None:
                        sp["equil"] = eq_sol
                    setup.append(render_gas(sp, c, spec.get("temp", 25.0)))
                elif kd == "ss":
                    # `ss_names: "raw"` keeps the names as written in the case (used only by the known-finding replay)
                    setup.append(render_ss(spec, c, "" if case.get("ss_names") == "raw" else "c%d" % c))
                elif kd == "kin":
                    setup.append(render_kin(spec, c))
            defs[kd] = spec
            if kd == "reaction":
                nst = max(nst, reaction_steps(spec))
            elif kd == "kin":
                nst = max(nst, kin_steps(spec))
            if kd != "reaction":
                before.append([RAWKIND[kd], c, 1.0])
                after.append([RAWKIND[kd], c if kd == "kin" else d])
        if "temps" in stp:
            setup.append("REACTION_TEMPERATURE %d\n %s" % (c, " ".join(fmt(t) for t in stp["temps"])))
            nst = max(nst, len(stp["temps"]))
        after.append(["SOLUTION", d])
        setup += ["USE solution none", "USE mix none", "DUMP\n -all", "END"]
        run.append("INCREMENTAL_REACTIONS %s" % ("true" if stp["incr"] else "false"))
        if cells:
            run.append("RUN_CELLS\n -cells %d" % c)
        else:
            run.append("USE %s %d" % ("mix" if stp["src"]["kind"] == "mix" else "solution", c))
            for kd in kinds:
                run.append("USE %s %d" % (KEYWORD[kd], c))
            if "temps" in stp:
                run.append("USE reaction_temperature %d" % c)
            run.append("SAVE solution %d" % d)
            for kd in kinds:
                if kd not in ("reaction", "kin"):
                    run.append("SAVE %s %d" % (KEYWORD[kd], d))
        info = {"cell": c, "saved": d, "before": before, "after": after, "kinds": kinds, "nsteps": nst, "defs": defs,
                "added": None, "mix": stp["src"]["kind"] == "mix"}
        if "reaction" in stp:
            r = defs["reaction"]
            info["added"] = {"reactants": r["reactants"], "amount": reaction_total(r, stp["incr"], nst)}
        if punch is not None:
            t = punch(k, stp, info)
            if t:
                run.append(t)
        run += ["DUMP\n -all", "END"]
        info["setup"] = "\n".join(setup) + "\n"
        info["run"] = "\n".join(run) + "\n"
        out["steps"].append(info)
        prev = info
    return out
