"""C08 development/triage helper (not used by the check itself):

  python3-vt -m vp.c08_triage min <fuzz_run|fuzz_db> <artifact> [out.json]   minimise a crashing input, keep its signature
  python3-vt -m vp.c08_triage show <fuzz_run|fuzz_db> <artifact>             print signature + report
  python3-vt -m vp.c08_triage known <name> <fuzz_run|fuzz_db> <file> <what>  write replays/C08/known/<name>.json (strict replay)

Minimisation is delta debugging over lines, then blank-separated tokens, then characters of the text part; the
trailing control bytes are kept.  Candidates of one round are evaluated in parallel processes.
"""
import os, sys, json, base64, shutil, tempfile
from concurrent.futures import ThreadPoolExecutor
from . import lib
from .props import c08

NCTL = {"fuzz_run": 2, "fuzz_db": 1}
WORK = os.path.join(lib.BUILD, "scratch", "c08triage.%d" % os.getpid())
_n = [0]


def sig_of(target, data, strict=True):
    _n[0] += 1
    d = os.path.join(WORK, "t%d" % _n[0])
    try:
        k, sig, msg = c08.run_single(target, data, d, no_filter=strict, timeout=120)
    finally:
        shutil.rmtree(d, ignore_errors=True)
    return k, sig, msg


def ddmin(units, test, pool):
    """units: list; test(list) -> bool (still fails the same way); returns a 1-minimal-ish sublist"""
    n = 2
    while len(units) >= 2:
        size = max(len(units) // n, 1)
        chunks = [units[i:i + size] for i in range(0, len(units), size)]
        cands = [sum(chunks[:i] + chunks[i + 1:], []) for i in range(len(chunks))]
        res = list(pool.map(test, cands))
        hit = [c for c, r in zip(cands, res) if r]
        if hit:
            units = min(hit, key=len)
            n = max(n - 1, 2)
        elif size == 1:
            break
        else:
            n = min(n * 2, len(units))
    return units


def minimise(target, data, verbose=True):
    nctl = NCTL[target]
    text, ctl = data[:-nctl], data[-nctl:]
    k, sig, msg = sig_of(target, data)
    if k != "violation":
        raise SystemExit("input does not fail: %s %s" % (k, sig))
    if verbose:
        print("signature:", sig)

    def keeps(t):
        k2, s2, _ = sig_of(target, t + ctl)
        return k2 == "violation" and s2 == sig

    with ThreadPoolExecutor(6) as pool:
        # simplest control bytes first (RunString, no switches)
        for c in ([b"\x00" * nctl] if ctl != b"\x00" * nctl else []):
            k2, s2, _ = sig_of(target, text + c)
            if k2 == "violation" and s2 == sig:
                ctl = c
        lines = text.split(b"\n")
        lines = ddmin(lines, lambda ls: keeps(b"\n".join(ls)), pool)
        if verbose:
            print("lines:", len(lines))
        # tokens
        toks = []
        for i, l in enumerate(lines):
            parts = l.split(b" ")
            for j, p in enumerate(parts):
                toks.append(p + (b" " if j + 1 < len(parts) else b""))
            if i + 1 < len(lines):
                toks.append(b"\n")
        toks = ddmin(toks, lambda ts: keeps(b"".join(ts)), pool)
        text = b"".join(toks)
        if len(text) <= 400:
            chars = [bytes([c]) for c in text]
            chars = ddmin(chars, lambda cs: keeps(b"".join(cs)), pool)
            text = b"".join(chars)
    return text + ctl, sig


def main(a):
    os.makedirs(WORK, exist_ok=True)
    try:
        if a[0] == "show":
            k, sig, msg = sig_of(a[1], open(a[2], "rb").read())
            print(k, sig)
            print(msg)
        elif a[0] == "text":      # text from stdin (+ control bytes given as hex in a[2], default zeros)
            data = sys.stdin.buffer.read() + (bytes.fromhex(a[2]) if len(a) > 2 else b"\x00" * NCTL[a[1]])
            k, sig, msg = sig_of(a[1], data)
            print(k, sig)
            print(msg[:1800])
        elif a[0] == "min":
            data, sig = minimise(a[1], open(a[2], "rb").read())
            print("minimal input (%d bytes): %r" % (len(data), data))
            k, sig, msg = sig_of(a[1], data)
            print(sig)
            print(msg[:2500])
            if len(a) > 3:
                with open(a[3], "wb") as f:
                    f.write(data)
        elif a[0] == "known":
            name, target, path, what = a[1], a[2], a[3], a[4]
            data = open(path, "rb").read()
            k, sig, msg = sig_of(target, data)
            assert k == "violation", (k, sig)
            case = {"kind": "fuzz", "target": target, "b64": base64.b64encode(data).decode(), "sig": sig, "strict": True, "text": data.decode("latin-1")}
            d = os.path.join(lib.VERIF, "replays", "C08", "known")
            os.makedirs(d, exist_ok=True)
            with open(os.path.join(d, name + ".json"), "w") as f:
                json.dump({"case": case, "oracle": sig, "message": msg[:3000], "what": what}, f, indent=1)
            print("wrote", os.path.join(d, name + ".json"), sig)
    finally:
        shutil.rmtree(WORK, ignore_errors=True)


if __name__ == "__main__":
    main(sys.argv[1:])
