"""Independent reader of PHREEQC database text (no code shared with /repo; written from the database format).

Usage
-----
    from vp import dbparse
    db = dbparse.load("phreeqc.dat")              # name relative to <repo>/database, or an absolute path; cached
    db = dbparse.parse_text(text, name="x")       # parse a string
    db2 = dbparse.parse_text(more, name="x+", base=db)   # `more` continues db (input additions / re-definitions); db is not modified

    db.master["Fe(3)"]      -> Master(element="Fe(3)", base="Fe", species="Fe+3", alk=-2.0, gfw=55.847, primary=False,
                                      gfw_formula="Fe", element_gfw=None, valence=3.0)
                               element names are normalised: "Fe(+3)" -> "Fe(3)"
    db.primary["Fe"]        -> Master of the primary entry (element without valence)
    db.master_of_species["Fe+3"] -> list of Master entries whose master species is Fe+3
    db.gfw("S(6)")          -> gram formula weight used for mass units of that master entry (96.06.. for "SO4")
    db.element_gfw("S")     -> atomic weight from the primary SOLUTION_MASTER_SPECIES line
    db.formula_weight("CaSO4:2H2O")

    db.species["CaSO4"]     -> Species (aqueous);  db.exchange_species, db.surface_species  likewise
    db.phases["Calcite"]    -> Phase
    db.named["name"]        -> NamedExpr (NAMED_EXPRESSIONS)
    db.llnl                 -> dict(temperatures=[..], dh_a=[..], dh_b=[..], bdot=[..], co2_coefs=[..]) or None
    db.exchange_master / db.surface_master -> dict name -> Master
    db.blocks               -> Counter of keyword blocks seen;  db.has_pitzer / db.has_sit
    db.isotopes             -> {"H": ["D", "T"], "H(0)": ["D(0)", "T(0)"], ...} from the ISOTOPES block ({} if none)
    db.problems             -> list of (line_no, message): everything the parser could not read (empty = read completely)

Species / Phase / NamedExpr share the log K data:
    .log_k, .delta_h (kJ/mol, converted), .delta_h_unit (as written), .analytic (6 floats), .add_logk [(name, coef)]
    .logk(TK)               -> log10 K at TK kelvin and 1 atm (needs the database for add_logk: pass db= or use db.logk(obj, TK))
         rule: any non-zero analytic coefficient -> A1 + A2 T + A3/T + A4 log10 T + A5/T^2 + A6 T^2
               else log_k - dH (298.15 - T) / (ln10 R T 298.15), R = 8.31470e-3 kJ/mol/K
               plus sum over add_logk of coef * (the named expression evaluated by the same rule, recursively)
Species:
    .name .charge .elements (dict, from the name or from -mole_balance; valence suffixes removed)
    .mole_balance (text or None)  .mb_elements (dict with valence-qualified names as written, or None)
    .lhs / .rhs             -> [(coef, name)] as written, left / right of '='; names in canonical charge spelling
                               (formula.canonical: 'Cu+1' -> 'Cu+', 'Al+++' -> 'Al+3'), the spelling the engine knows them by
    .reaction               -> [(coef, name)] signed so that  sum coef*LA(name) = logK  (products +, reactants -),
                               the defined species (first on the right) included with its coefficient
    .is_identity            -> True for "H+ = H+"
    .gamma_model            -> ("davies",) | ("neutral",) | ("dh", a, b) | ("llnl", a) | ("co2_llnl",) | ("water",)
                               "davies"/"neutral" = no activity option given (charged / uncharged species)
    .gamma (a, b) or None, .llnl_gamma a or None, .co2_llnl_gamma bool, .activity_water bool, .no_check bool
    .options                -> dict of all other options as token lists (dw, vm, viscosity, millero, erm_ddl, cd_music, ...)
    .line                   -> line number of the equation
Phase:
    .name .formula (first species on the left) .lhs .rhs
    .reaction               -> [(coef, name)] signed like Species.reaction but WITHOUT the solid itself:
                               SI = sum coef*LA(name) - logK
    .elements (dict from the formula), .t_c .p_c .omega (gas) and .options

Later definitions of the same species / phase / master element replace earlier ones completely.
"""
import os, re, math, collections
from . import formula as F

R_KJ = 8.31470e-3          # kJ / (mol K): the gas constant of the documented model
T_REF = 298.15
LN10 = math.log(10.0)
CAL = 4.184                # J per thermochemical calorie

KEYWORDS = set("""advection calculate_values comment copy database debug delete dump end eof equilibria equilibrium
equilibrium_phase equilibrium_phase_mix equilibrium_phases equilibrium_phases_mix equilibrium_phases_modify
equilibrium_phases_raw exchange exchange_master_species exchange_mix exchange_modify exchange_raw exchange_species
gas_binary_parameters gas_phase gas_phase_mix gas_phase_modify gas_phase_raw incremental incremental_reactions
inverse_modeling isotope_alphas isotope_ratios isotopes kinetics kinetics_mix kinetics_modify kinetics_raw knobs
llnl_aqueous_model llnl_aqueous_model_parameters mean_gammas mix mix_equilibrium_phase mix_equilibrium_phases
mix_exchange mix_gas_phase mix_kinetics mix_raw mix_solid_solution mix_solid_solutions mix_solution mix_surface
named_analytical_expression named_analytical_expressions named_expressions named_log_k phases pitzer print pure
pure_phases rate_parameters_hermanska rate_parameters_pk rate_parameters_svd rates reaction reaction_modify
reaction_pressure reaction_pressure_modify reaction_pressure_raw reaction_pressures reaction_raw reaction_temperature
reaction_temperature_modify reaction_temperature_raw run_cells save select_out select_output selected_out selected_output
sit solid_solution solid_solution_mix solid_solution_modify solid_solutions solid_solutions_mix solid_solutions_modify
solid_solutions_raw solution solution_master_species solution_mix solution_modify solution_raw solution_s
solution_species solution_spread spread_solution surface surface_master_species surface_mix surface_modify surface_raw
surface_species title transport use user_graph user_print user_punch""".split())

# option spellings per block, in the documented order (a '-' prefixed word matches the first entry it is a prefix of;
# a word without '-' must match exactly)
OPTS = {
    "solution_species": ["no_check", "check", "gamma", "mb", "mass_balance", "log_k", "logk", "delta_h", "deltah",
                         "analytical_expression", "a_e", "ae", "mole_balance", "llnl_gamma", "co2_llnl_gamma",
                         "activity_water", "add_logk", "add_log_k", "add_constant", "dw", "erm_ddl", "millero", "vm",
                         "viscosity"],
    "phases": ["no_check", "check", "log_k", "logk", "delta_h", "deltah", "analytical_expression", "a_e", "ae",
               "add_logk", "add_log_k", "add_constant", "t_c", "p_c", "omega", "vm"],
    "exchange_species": ["no_check", "check", "mb", "mass_balance", "log_k", "logk", "delta_h", "deltah",
                         "analytical_expression", "a_e", "ae", "mole_balance", "gamma", "davies", "offset", "llnl_gamma",
                         "add_logk", "add_log_k", "add_constant", "vm"],
    "surface_species": ["no_check", "check", "mb", "mass_balance", "log_k", "logk", "delta_h", "deltah",
                        "analytical_expression", "a_e", "ae", "mole_balance", "offset", "add_logk", "add_log_k",
                        "add_constant", "cd_music", "music", "vm"],
    "named_expressions": ["log_k", "logk", "delta_h", "deltah", "analytical_expression", "a_e", "ae", "ln_alpha1000",
                          "add_logk", "add_log_k", "vm"],
    "llnl_aqueous_model_parameters": ["temperatures", "temperature", "temp", "adh", "debye_huckel_a", "dh_a", "bdh",
                                      "debye_huckel_b", "dh_b", "bdot", "b_dot", "c_co2", "co2_coefs"],
}
CANON = {"logk": "log_k", "deltah": "delta_h", "a_e": "analytical_expression", "ae": "analytical_expression",
         "mb": "mole_balance", "mass_balance": "mole_balance", "add_log_k": "add_logk", "music": "cd_music",
         "temperature": "temperatures", "temp": "temperatures", "adh": "dh_a", "debye_huckel_a": "dh_a",
         "bdh": "dh_b", "debye_huckel_b": "dh_b", "b_dot": "bdot", "c_co2": "co2_coefs"}

_NUMRE = re.compile(r"^[+-]?(\d+\.?\d*|\.\d+)([eEdD][+-]?\d+)?$")


def _isnum(t):
    return bool(_NUMRE.match(t))


def _num(t):
    return float(t.replace("d", "e").replace("D", "e"))


def norm_element(e):
    """'Fe(+3)' -> 'Fe(3)'"""
    return e.replace("(+", "(")


def base_element(e):
    """'Fe(3)' -> 'Fe';  '[13C](4)' -> '[13C]'"""
    m = re.match(r"^(.*?)\([+-]?\d+\.?\d*\)$", e)
    return m.group(1) if m else e


class LogKData(object):
    def __init__(self):
        self.log_k = 0.0
        self.delta_h = 0.0           # kJ/mol
        self.delta_h_unit = None
        self.analytic = [0.0] * 6
        self.add_logk = []
        self.options = {}
        self.line = None

    def own_logk(self, TK):
        """log K from this entry's own numbers (without add_logk)"""
        A = self.analytic
        if any(a != 0.0 for a in A):
            return A[0] + A[1] * TK + A[2] / TK + A[3] * math.log10(TK) + A[4] / (TK * TK) + A[5] * TK * TK
        return self.log_k - self.delta_h * (T_REF - TK) / (LN10 * R_KJ * TK * T_REF)

    def uses_analytic(self):
        return any(a != 0.0 for a in self.analytic)

    def logk(self, TK, db=None, _depth=0):
        v = self.own_logk(TK)
        if self.add_logk:
            db = db or getattr(self, "db", None)
            if db is None:
                raise ValueError("add_logk needs the database")
            if _depth > 20:
                raise ValueError("add_logk recursion")
            for name, coef in self.add_logk:
                ne = db.named.get(name.lower())
                if ne is None:
                    raise KeyError("named expression %r not defined" % name)
                v += coef * ne.logk(TK, db, _depth + 1)
        return v


class NamedExpr(LogKData):
    def __init__(self, name):
        LogKData.__init__(self)
        self.name = name


class Species(LogKData):
    kind = "aq"

    def __init__(self, name):
        LogKData.__init__(self)
        self.name = name
        self.lhs, self.rhs = [], []
        self.gamma = None
        self.llnl_gamma = None
        self.co2_llnl_gamma = False
        self.activity_water = False
        self.no_check = False
        self.mole_balance = None
        self.mb_elements = None
        self.davies = False
        body, self.charge = F.split_charge(name)
        self._elements = None

    @property
    def elements(self):
        if self._elements is None:
            if self.mb_elements is not None:
                d = {}
                for k, v in self.mb_elements.items():
                    b = base_element(k)
                    d[b] = d.get(b, 0.0) + v
                self._elements = d
            else:
                self._elements = F.elements(self.name)
        return self._elements

    @property
    def reaction(self):
        return [(-c, n) for c, n in self.lhs] + [(c, n) for c, n in self.rhs]

    @property
    def is_identity(self):
        net = collections.defaultdict(float)
        for c, n in self.reaction:
            net[n] += c
        return all(abs(v) < 1e-12 for v in net.values())

    @property
    def gamma_model(self):
        if self.activity_water:
            return ("water",)
        if self.co2_llnl_gamma:
            return ("co2_llnl",)
        if self.llnl_gamma is not None:
            return ("llnl", self.llnl_gamma)
        if self.gamma is not None:
            return ("dh", self.gamma[0], self.gamma[1])
        return ("davies",) if self.charge != 0 else ("neutral",)

    def __repr__(self):
        return "<Species %s>" % self.name


class ExchangeSpecies(Species):
    kind = "ex"


class SurfaceSpecies(Species):
    kind = "surf"


class Phase(LogKData):
    def __init__(self, name):
        LogKData.__init__(self)
        self.name = name
        self.formula = None
        self.lhs, self.rhs = [], []
        self.no_check = False
        self.t_c = self.p_c = self.omega = None

    @property
    def reaction(self):
        return [(-c, n) for c, n in self.lhs[1:]] + [(c, n) for c, n in self.rhs]

    @property
    def elements(self):
        return F.elements(self.formula)

    def __repr__(self):
        return "<Phase %s>" % self.name


class Master(object):
    def __init__(self, element, species, alk, gfw_formula, gfw_number, element_gfw, line):
        self.element = norm_element(element)
        self.base = base_element(self.element)
        self.primary = self.base == self.element
        m = re.match(r"^.*\(([+-]?\d+\.?\d*)\)$", self.element)
        self.valence = float(m.group(1)) if m else None
        self.species = F.canonical(species)
        self.species_as_written = species
        self.alk = alk
        self.gfw_formula = gfw_formula
        self.gfw_number = gfw_number
        self.element_gfw = element_gfw
        self.line = line
        self.gfw = None      # resolved by Database.finish()

    def __repr__(self):
        return "<Master %s %s>" % (self.element, self.species)


class Database(object):
    def __init__(self, name):
        self.name = name
        self.master = collections.OrderedDict()
        self.exchange_master = collections.OrderedDict()
        self.surface_master = collections.OrderedDict()
        self.species = collections.OrderedDict()
        self.exchange_species = collections.OrderedDict()
        self.surface_species = collections.OrderedDict()
        self.phases = collections.OrderedDict()
        self.phase_ci = {}
        self.named = {}
        self.llnl = None
        self.blocks = collections.Counter()
        self.rates = []
        self.problems = []
        self.has_pitzer = self.has_sit = False
        self.redefined = []
        self.isotopes = {}

    # ---- look-ups
    @property
    def primary(self):
        return {k: m for k, m in self.master.items() if m.primary}

    def gfw(self, element):
        return self.master[norm_element(element)].gfw

    def element_gfw(self, base):
        m = self.master.get(base)
        if m is None or m.element_gfw is None:
            raise KeyError(base)
        return m.element_gfw

    def _weights(self):
        return {k: m.element_gfw for k, m in self.master.items() if m.primary and m.element_gfw is not None}

    def formula_weight(self, text):
        return F.weight(text, self._weights())

    def logk(self, obj, TK):
        return obj.logk(TK, self)

    def phase(self, name):
        return self.phases.get(name) or self.phases.get(self.phase_ci.get(name.lower()))

    def species_with_elements(self, allowed, table=None):
        """names of species (default: aqueous) all of whose elements are in `allowed` (H, O, e always allowed)"""
        ok = set(allowed) | {"H", "O", "e"}
        return [s.name for s in (table or self.species).values() if set(s.elements) <= ok]

    def finish(self):
        w = self._weights()
        self.master_of_species = collections.defaultdict(list)
        for m in self.master.values():
            self.master_of_species[m.species].append(m)
            if m.gfw_number is not None:
                m.gfw = m.gfw_number
            elif m.gfw_formula is not None:
                try:
                    m.gfw = F.weight(m.gfw_formula, w)
                except (KeyError, F.FormulaError) as e:
                    m.gfw = None
                    self.problems.append((m.line, "gfw formula %r of %s: %s" % (m.gfw_formula, m.element, e)))
        for tab in (self.species, self.exchange_species, self.surface_species):
            for s in tab.values():
                s.db = self
                try:
                    s.elements
                except F.FormulaError as e:
                    self.problems.append((s.line, "formula of species %s: %s" % (s.name, e)))
                    s._elements = {}
        for p in self.phases.values():
            p.db = self
        for n in self.named.values():
            n.db = self
        return self


# ----------------------------------------------------------------------------------------------- text level
def logical_lines(text):
    """-> [(line_no, text)] after removing comments, joining continuation lines and splitting at ';'"""
    out = []
    pending = ""
    pend_no = None
    for no, raw in enumerate(text.replace("\r\n", "\n").replace("\r", "\n").split("\n"), 1):
        line = raw.split("#", 1)[0]
        st = line.rstrip()
        if st.endswith("\\"):
            pending += st[:-1] + " "
            if pend_no is None:
                pend_no = no
            continue
        line = pending + line
        lno = pend_no if pend_no is not None else no
        pending, pend_no = "", None
        for part in line.split(";"):
            p = part.strip()
            if p:
                out.append((lno, p))
    if pending.strip():
        out.append((pend_no, pending.strip()))
    return out


def match_option(token, options):
    """-> canonical option name or None (None = not an option: a data line)"""
    t = token.lower()
    if t.startswith("-") and len(t) > 1 and (t[1].isalpha() or t[1] == "_"):
        w = t[1:]
        for o in options:
            if o.startswith(w):
                return CANON.get(o, o)
        return "?unknown"
    for o in options:
        if o == t:
            return CANON.get(o, o)
    return None


_SPSTART = re.compile(r"[A-Za-z(\[]")


def parse_equation(text):
    """'Ca+2 + CO3-2 = CaCO3' -> ([(1.0,'Ca+2'),(1.0,'CO3-2')], [(1.0,'CaCO3')]).  White space is not significant."""
    if text.count("=") != 1:
        raise ValueError("equation needs exactly one '=': %r" % text)
    s = re.sub(r"\s+", "", text)
    sides = []
    for side in s.split("="):
        sides.append(_parse_side(side, text))
    return sides[0], sides[1]


def _parse_side(s, whole):
    items = []
    i, n = 0, len(s)
    sign = 1.0
    while i < n:
        # operator(s) in front of a term
        while i < n and s[i] in "+-":
            if s[i] == "-":
                sign = -sign
            i += 1
        if i >= n:
            break
        m = re.match(r"(\d+\.?\d*|\.\d+)", s[i:])
        coef = 1.0
        if m:
            coef = float(m.group(1))
            i += m.end()
        if i >= n or not _SPSTART.match(s[i]):
            raise ValueError("species expected at %r in %r" % (s[i:i + 10], whole))
        # species body up to a sign run at bracket level 0
        j = i
        depth = 0
        while j < n:
            c = s[j]
            if c == "[":
                depth += 1
            elif c == "]":
                depth -= 1
            elif c in "+-" and depth == 0:
                break
            j += 1
        name = s[i:j]
        if j < n:
            k = j
            while k < n and s[k] in "+-":
                k += 1
            run, rest = s[j:k], s[k:]
            mnum = re.match(r"(\d+\.?\d*|\.\d+)", rest)
            if rest == "":
                name += run
                j = k
            elif mnum and (len(rest) == mnum.end() or rest[mnum.end()] in "+-"):
                # sign + number followed by an operator or the end: a numeric charge
                if len(run) != 1:
                    # e.g. 'A- +2 ...' is not written in databases; treat the last sign as belonging to the number
                    name += run[:-1]
                    # the number is then a charge of nothing: refuse
                    raise ValueError("ambiguous charge/operator %r in %r" % (run + rest[:6], whole))
                name += run + mnum.group(1)
                j = k + mnum.end()
            else:
                # a coefficient or a species follows: the last sign is the operator
                name += run[:-1]
                j = k - 1
        if len(set(re.sub(r"[^+-]", "", name[len(name.rstrip("+-")):]))) > 1:
            raise ValueError("mixed signs in charge of %r in %r" % (name, whole))
        items.append((sign * coef, F.canonical(name)))
        sign = 1.0
        i = j
    return items


def _numbers(tokens, maxn=None):
    out = []
    for t in tokens:
        t = t.rstrip(",")
        if not _isnum(t):
            break
        out.append(_num(t))
        if maxn and len(out) >= maxn:
            break
    return out


def _read_delta_h(tokens):
    """-> (kJ/mol, unit text)"""
    toks = [t for t in " ".join(tokens).replace("=", " ").split()]
    if not toks or not _isnum(toks[0]):
        raise ValueError("delta_h value expected")
    v = _num(toks[0])
    unit = "kj"
    if len(toks) > 1 and toks[1][0].isalpha():
        u = toks[1].lower()
        unit = u
        if not u.startswith("k"):
            v /= 1000.0
        if "c" in u:
            v *= CAL
    return v, unit


def _mb_elements(text):
    """elements of a -mole_balance formula; valence-qualified names like S(-2)4 are kept as 'S(-2)'"""
    # protect valence suffixes: Name(+-n) directly after an element name
    prot = {}

    def rep(m):
        key = "Zz" + "".join("abcdefghij"[int(d)] for d in str(len(prot))) + "_"
        prot[key] = m.group(1) + norm_element(m.group(2))
        return key

    t = re.sub(r"([A-Z][a-z_]*|\[[^\[\]]*\][a-z_]*)(\([+-]?\d+\.?\d*\))", rep, text)
    els = F.elements(t)
    out = {}
    for k, v in els.items():            # several occurrences of one valence-qualified name add up (AgS(-2)4S(-2)5 -> S(-2) 9)
        n = prot.get(k, k)
        out[n] = out.get(n, 0.0) + v
    return out


def _copy_into(db, base):
    """start `db` as a copy of `base` (objects are shallow-copied: definitions parsed later replace whole objects, never mutate)"""
    import copy
    for attr in ("master", "exchange_master", "surface_master", "species", "exchange_species", "surface_species", "phases"):
        tab = getattr(db, attr)
        for k, v in getattr(base, attr).items():
            tab[k] = copy.copy(v)
    db.phase_ci = dict(base.phase_ci)
    db.named = {k: copy.copy(v) for k, v in base.named.items()}
    db.llnl = copy.deepcopy(base.llnl)
    db.blocks = collections.Counter(base.blocks)
    db.rates = list(base.rates)
    db.problems = list(base.problems)
    db.has_pitzer, db.has_sit = base.has_pitzer, base.has_sit
    db.isotopes = {k: list(v) for k, v in base.isotopes.items()}
    db.redefined = []


def parse_text(text, name="<string>", base=None):
    """parse database-format text; with base=<Database> the text is read as a continuation of that database (definitions given
    in a run input after LoadDatabase, or a correction block at the end of a database file): later definitions of a species /
    phase / master element / named expression replace the earlier ones completely.  `base` is not modified."""
    db = Database(name)
    if base is not None:
        _copy_into(db, base)
    lines = logical_lines(text)
    block = None
    cur = None            # current species / phase / named expression
    expect_eq = None      # a Phase waiting for its equation
    i = 0
    while i < len(lines):
        no, line = lines[i]
        i += 1
        toks = line.split()
        first = toks[0].lower()
        if first in KEYWORDS:
            block = first
            if block in ("llnl_aqueous_model",):
                block = "llnl_aqueous_model_parameters"
            if block in ("named_analytical_expression", "named_analytical_expressions", "named_log_k"):
                block = "named_expressions"
            db.blocks[block] += 1
            cur = None
            expect_eq = None
            if block == "pitzer":
                db.has_pitzer = True
            if block == "sit":
                db.has_sit = True
            if block == "llnl_aqueous_model_parameters" and db.llnl is None:
                db.llnl = {"temperatures": [], "dh_a": [], "dh_b": [], "bdot": [], "co2_coefs": []}
                cur = None
            continue
        try:
            if block == "solution_master_species":
                _master_line(db, db.master, toks, no, solution=True)
            elif block in ("exchange_master_species", "surface_master_species"):
                tab = db.exchange_master if block.startswith("ex") else db.surface_master
                if len(toks) < 2:
                    raise ValueError("master species line needs 2 fields")
                tab[toks[0]] = Master(toks[0], toks[1], 0.0, None, None, None, no)
            elif block in ("solution_species", "exchange_species", "surface_species"):
                opt = match_option(toks[0], OPTS[block])
                if opt is None:
                    lhs, rhs = parse_equation(line)
                    if not rhs:
                        raise ValueError("no product in %r" % line)
                    cls = {"solution_species": Species, "exchange_species": ExchangeSpecies,
                           "surface_species": SurfaceSpecies}[block]
                    sp = cls(rhs[0][1])
                    sp.lhs, sp.rhs, sp.line = lhs, rhs, no
                    tab = {"solution_species": db.species, "exchange_species": db.exchange_species,
                           "surface_species": db.surface_species}[block]
                    if sp.name in tab:
                        db.redefined.append(sp.name)
                        del tab[sp.name]          # a later definition replaces the earlier one (and moves to the end)
                    tab[sp.name] = sp
                    cur = sp
                else:
                    if cur is None:
                        raise ValueError("option %r before any species" % toks[0])
                    _species_option(cur, opt, toks[1:], line)
            elif block == "phases":
                opt = match_option(toks[0], OPTS[block])
                if opt is None:
                    if expect_eq is not None:
                        lhs, rhs = parse_equation(line)
                        if not lhs:
                            raise ValueError("no formula in %r" % line)
                        expect_eq.lhs, expect_eq.rhs, expect_eq.formula = lhs, rhs, lhs[0][1]
                        expect_eq.line = no
                        expect_eq = None
                    else:
                        ph = Phase(toks[0])
                        old = db.phase_ci.get(ph.name.lower())
                        if old is not None:
                            db.redefined.append(ph.name)
                            del db.phases[old]
                        db.phases[ph.name] = ph
                        db.phase_ci[ph.name.lower()] = ph.name
                        cur = ph
                        expect_eq = ph
                else:
                    if cur is None or expect_eq is not None:
                        raise ValueError("option %r where a phase name/equation was expected" % toks[0])
                    _species_option(cur, opt, toks[1:], line)
            elif block == "named_expressions":
                opt = match_option(toks[0], OPTS[block])
                if opt is None:
                    ne = NamedExpr(toks[0])
                    ne.line = no
                    db.named[toks[0].lower()] = ne
                    cur = ne
                else:
                    if cur is None:
                        raise ValueError("option before any name")
                    _species_option(cur, opt, toks[1:], line)
            elif block == "llnl_aqueous_model_parameters":
                opt = match_option(toks[0], OPTS[block])
                if opt is None:
                    if cur is None:
                        raise ValueError("numbers before any option")
                    db.llnl[cur].extend(_all_numbers(toks))
                elif opt == "?unknown":
                    raise ValueError("unknown option %r" % toks[0])
                else:
                    cur = opt
                    db.llnl[cur].extend(_all_numbers(toks[1:]))
            elif block == "isotopes":
                # ISOTOPES: an element line followed by "-isotope <minor isotope> <units> <standard ratio>" lines
                if toks[0].startswith("-"):
                    if "isotope".startswith(toks[0][1:].lower()) and len(toks) > 1 and isinstance(cur, str):
                        db.isotopes.setdefault(cur, []).append(norm_element(toks[1]))
                    else:
                        raise ValueError("unexpected line %r" % line)
                else:
                    cur = norm_element(toks[0])
                    db.isotopes.setdefault(cur, [])
            elif block == "rates":
                if not (toks[0][0].isdigit() or toks[0].startswith("-")):
                    db.rates.append(toks[0])
            else:
                pass      # blocks that carry no equilibrium data for the oracles
        except (ValueError, F.FormulaError, KeyError, IndexError) as e:
            db.problems.append((no, "%s: %s" % (block, e)))
    return db.finish()


def _all_numbers(toks):
    out = []
    for t in toks:
        if not _isnum(t):
            raise ValueError("number expected, got %r" % t)
        out.append(_num(t))
    return out


def _master_line(db, tab, toks, no, solution):
    if len(toks) < 4:
        raise ValueError("master species line needs element, species, alkalinity, gfw/formula: %r" % " ".join(toks))
    el, sp = toks[0], toks[1]
    if not _isnum(toks[2]):
        raise ValueError("alkalinity of %s is not a number" % el)
    alk = _num(toks[2])
    gform = gnum = None
    if _isnum(toks[3]):
        gnum = _num(toks[3])
    else:
        gform = toks[3]
    egfw = None
    if len(toks) > 4 and _isnum(toks[4]):
        egfw = _num(toks[4])
    m = Master(el, sp, alk, gform, gnum, egfw, no)
    if m.primary and egfw is None and m.element != "E":
        # a primary master species without element weight (allowed for E; else the engine reports an error)
        if gnum is None:
            raise ValueError("primary master species %s has no element gfw" % el)
    if m.element in tab:
        db.redefined.append("master:" + m.element)
        del tab[m.element]
    tab[m.element] = m


def _species_option(cur, opt, args, line):
    if opt == "?unknown":
        raise ValueError("unknown option in %r" % line)
    args = [a for a in " ".join(args).replace("=", " ").split()] if opt in ("log_k", "delta_h") else args
    if opt == "log_k":
        v = _numbers(args, 1)
        if not v:
            raise ValueError("log_k value expected in %r" % line)
        cur.log_k = v[0]
    elif opt == "delta_h":
        cur.delta_h, cur.delta_h_unit = _read_delta_h(args)
    elif opt == "analytical_expression":
        v = _numbers(args, 6)
        if not v:
            raise ValueError("analytical expression expects numbers: %r" % line)
        cur.analytic = v + [0.0] * (6 - len(v))
    elif opt == "ln_alpha1000":
        v = _numbers(args, 6)
        if not v:
            raise ValueError("ln_alpha1000 expects numbers: %r" % line)
        v = v + [0.0] * (6 - len(v))
        # 1000 ln(alpha) = A1 + A2 T + A3/T + A4 log10 T + A5/T^2 (+ A6 T^2)  ->  log10 alpha
        cur.analytic = [x / (1000.0 * LN10) for x in v]
        cur.options["ln_alpha1000"] = v
    elif opt == "add_logk":
        if not args:
            raise ValueError("add_logk needs a name: %r" % line)
        coef = 1.0
        if len(args) > 1:
            if not _isnum(args[1]):
                raise ValueError("add_logk coefficient is not a number: %r" % line)
            coef = _num(args[1])
        cur.add_logk.append((args[0], coef))
    elif opt == "add_constant":
        v = _numbers(args, 1)
        if not v:
            raise ValueError("add_constant expects a number")
        # documented as a constant added to log K: kept separately so that a consumer can refuse the species
        cur.options["add_constant"] = v
        raise ValueError("add_constant is not supported by this reader")
    elif opt == "no_check":
        cur.no_check = True
    elif opt == "check":
        cur.no_check = False
    elif opt == "gamma":
        v = _numbers(args, 2)
        if len(v) < 2:
            raise ValueError("-gamma expects two numbers: %r" % line)
        cur.gamma = (v[0], v[1])
    elif opt == "llnl_gamma":
        v = _numbers(args, 1)
        if not v:
            raise ValueError("-llnl_gamma expects a number")
        cur.llnl_gamma = v[0]
    elif opt == "co2_llnl_gamma":
        cur.co2_llnl_gamma = True
    elif opt == "activity_water":
        cur.activity_water = True
    elif opt == "davies":
        cur.davies = True
    elif opt == "mole_balance":
        if not args:
            raise ValueError("-mole_balance needs a formula")
        cur.mole_balance = args[0]
        cur.mb_elements = _mb_elements(args[0])
        cur._elements = None
    elif opt in ("t_c", "p_c", "omega"):
        v = _numbers(args, 1)
        if not v:
            raise ValueError("-%s expects a number" % opt)
        setattr(cur, opt, v[0])
    else:
        cur.options[opt] = list(args)


# ----------------------------------------------------------------------------------------------- files
_cache = {}


def dbdir():
    return os.path.join(os.environ.get("VERIF_REPO", "/repo"), "database")


def load(name):
    path = name if os.path.isabs(name) else os.path.join(dbdir(), name)
    st = os.stat(path)
    key = (path, st.st_mtime_ns, st.st_size)
    if key not in _cache:
        with open(path, "rb") as f:
            text = f.read().decode("latin-1")
        _cache[key] = parse_text(text, name)
    return _cache[key]
