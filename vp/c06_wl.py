"""C06: workload pool (corpus/mt/*.pqi templates) rendered with a small integer parameter, so that instances
running side by side compute *different* numbers (cross-talk between instances must be observable)."""
import os

VERIF = os.path.dirname(os.path.dirname(os.path.abspath(__file__)))
CORPUS = os.path.join(VERIF, "corpus", "mt")

# workload -> databases it is valid with
# Every workload only uses Na, Ca, Cl, C(4), S(6), Calcite, Gypsum, Halite, CO2(g) and the exchanger X, which all three
# databases define.  The workloads are *composable*: run one after another on the same instance in any order they stay cheap,
# because each uses its own range of reactant numbers (spec 1-2, kinetics 11, inverse 21-22, basic 31, error 41-42/77;
# transport cells 0-3), so that e.g. a KINETICS block never ends up inside a transport cell (probe: a persisting
# CVODE KINETICS 1 made a later 5-cell TRANSPORT take 35 s natively).  What does persist on purpose: RATES, SELECTED_OUTPUT
# 1-3 / USER_PUNCH / USER_PRINT definitions, PRINT options, solutions, EQUILIBRIUM_PHASES 1 (inside transport cell 1).
ALLDB = ["small.dat", "phreeqc.dat", "pitzer.dat"]
WORKLOADS = {n: list(ALLDB) for n in ("spec", "kin_rk", "kin_cvode", "transport", "transport_md", "inverse", "basic", "error", "react", "sticky", "zdiv", "arrays")}
DATABASES = list(ALLDB)
# workloads that execute Phreeqc::transport(): at most ONE thread of a schedule may run them (known finding: transport.cpp keeps
# its working state in file-scope globals shared by all instances, so two TRANSPORT runs at the same time race and can crash)
TRANSPORT_WL = ("transport", "transport_md")
# error-free workloads that leave sticky per-THREAD state behind (errno == ERANGE from libm / strtod range errors in BASIC);
# errno is the only such state the library ever reads back (parse.cpp get_coef / get_charge / get_num; no setlocale, no
# floating-point environment, no thread_local anywhere in src/).  Probe on a tree without the errno reset in get_num: each of the
# 8 variants makes EVERY other workload of the pool fail when it runs on another instance of the same thread in between.
STICKY_WL = ("sticky",)
STICKY_EXPR = ["1e5 * EXP(-2000)", "EXP(2000)", "LOG10(1e-300 * 1e-300)", "1e-400", "1e400", "10 ^ 400", "10 ^ -400", "EXP(-745.2) * 1e-10"]
# small.dat: corpus/mt/small.dat (6 kB, loads in 1 ms) is drawn more often than the two shipped databases
DB_WEIGHTED = ["small.dat", "small.dat", "small.dat", "phreeqc.dat", "phreeqc.dat", "pitzer.dat"]
NPARAM = 16
_cache = {}


def params(p):
    p = int(p) % NPARAM
    return {
        "P": "%d" % p,
        "T": "%.1f" % (10 + 2.5 * p),
        "PH": "%.2f" % (6 + 0.15 * p),
        "A": "%.4f" % (0.01 * (1 + p)),
        "B": "%.4f" % (0.001 * (1 + p % 5)),
        "C": "%.4f" % (0.002 * (1 + p % 3)),
        "AM": "%d" % (1 + p),
        "AM2": "%d" % (2 * (1 + p)),
        "K": "%.4f" % (0.001 * (1 + p)),
        "NA2": "%.2f" % (1.5 + 0.02 * (p % 4)),
        "STK": STICKY_EXPR[p % len(STICKY_EXPR)],
        "DIMN": "%d" % [8, 24, 64, 130, 200, 520, 1000, 5000][p % 8],       # below and above glibc's tcache limit (1032 bytes)
        "DIMM": "%d" % [8, 17, 40, 129, 300][p % 5],
    }


def dbpath(db):
    if os.path.isabs(db):
        return db
    if db == "small.dat":
        return os.path.join(CORPUS, "small.dat")
    from . import lib
    return os.path.join(lib.DBDIR, db)


def render(name, p):
    if name not in _cache:
        with open(os.path.join(CORPUS, name + ".pqi")) as f:
            _cache[name] = f.read()
    t = _cache[name]
    for k, v in params(p).items():
        t = t.replace("@" + k + "@", v)
    assert "@" not in t, "unrendered placeholder in " + name
    return t
