"""C06: workload pool (corpus/mt/*.pqi templates) rendered with a small integer parameter, so that instances
running side by side compute *different* numbers (cross-talk between instances must be observable)."""
import os

VERIF = os.path.dirname(os.path.dirname(os.path.abspath(__file__)))
CORPUS = os.path.join(VERIF, "corpus", "mt")

# workload -> databases it is valid with
WORKLOADS = {
    "spec": ["phreeqc.dat", "pitzer.dat", "wateq4f.dat"],
    "kin_rk": ["phreeqc.dat", "pitzer.dat", "wateq4f.dat"],
    "kin_cvode": ["phreeqc.dat", "pitzer.dat", "wateq4f.dat"],
    "transport": ["phreeqc.dat", "pitzer.dat", "wateq4f.dat"],
    "inverse": ["phreeqc.dat"],
    "basic": ["phreeqc.dat", "pitzer.dat", "wateq4f.dat"],
    "error": ["phreeqc.dat", "pitzer.dat", "wateq4f.dat"],
}
DATABASES = ["phreeqc.dat", "pitzer.dat", "wateq4f.dat"]
NPARAM = 16
_cache = {}


def params(p):
    p = int(p) % NPARAM
    return {
        "P": "%d" % p,
        "T": "%.1f" % (10 + 2.5 * p),
        "PH": "%.2f" % (6 + 0.15 * p),
        "A": "%.4f" % (0.01 * (1 + p)),
        "B": "%.4f" % (0.001 * (1 + p % 5)),
        "C": "%.4f" % (0.002 * (1 + p % 3)),
        "AM": "%d" % (1 + p),
        "AM2": "%d" % (2 * (1 + p)),
        "K": "%.4f" % (0.001 * (1 + p)),
        "CLI": "%.3f" % (0.03 + 0.001 * (p % 4)),
    }


def render(name, p):
    if name not in _cache:
        with open(os.path.join(CORPUS, name + ".pqi")) as f:
            _cache[name] = f.read()
    t = _cache[name]
    for k, v in params(p).items():
        t = t.replace("@" + k + "@", v)
    assert "@" not in t, "unrendered placeholder in " + name
    return t
