"""C14: operation histories over the numbered-reactant store, their rendering, and the reference model.

A *case* is {"ops": [sim, ...]}; every `sim` is ONE simulation (text up to END) given as a JSON dict

    {"mods":   [{"kind": K, "n": n|None, "field": f, "idx": i, "value": v}],           *_MODIFY blocks (read first)
     "defs":   [{"kind": K, "n": n|None, "m": m|None, "p": {...}}],                    definitions, `n-m` ranges, n absent
     "react":  {"use": [[K, n|None|"none"], ...], "save": [[K, n|None, m|None], ...]}, USE / SAVE lines
     "run_cells": [n, ...], "time_step": T|None,                                        RUN_CELLS
     "mixkw":  [{"kind": K, "n": a, "m": b, "parts": [[s, f], ...]}],                   SOLUTION_MIX, EXCHANGE_MIX, ...
     "copy":   [{"kind": K|"cell", "src": s, "a": a, "b": b|None}],                     COPY lines
     "delete": {"all": true} | {"cells": [[a, b], ...], "items": [[K, [[a, b], ...]], ...]}}

The reference model (`Model.apply`) is a map (kind, n) -> content id written from the DOCUMENTED semantics only:

  * order of events inside one simulation: read (definitions and *_MODIFY in text order) -> initial calculations ->
    batch reaction + SAVE -> RUN_CELLS -> *_MIX -> COPY -> DUMP -> DELETE          (RELEASE.TXT, Feb 4 2019 and svn 3719)
  * definitions `n-m` create every number of the range; a missing number is 1          (manual: "default is 1")
  * the batch reaction uses the entities named by USE, else the first entity of each kind defined in the simulation;
    it exists only if a solution or mix and at least one reactant take part; SAVE has no effect without it  (manual, USE / SAVE)
  * SAVE kind n-m writes the calculated composition under n..m; kinetic reactants are saved automatically under the
    number that was used                                                              (manual, SAVE)
  * COPY kind src dst[-end], COPY cell src dst[-end]: content-identical entries        (RELEASE.TXT version 2.9, svn 4823)
  * DELETE: lists of numbers / ranges per kind, -cells, -all                            (RELEASE.TXT svn 3719, 4823)
  * *_MODIFY: "Data items read are changed, all other data items remain the same"; an unknown number is ignored with a
    warning                                                                             (RELEASE.TXT svn 3727; Phreeqc.h Rxn_read_modify)
  * RUN_CELLS -cells i == USE every reactant i (MIX i instead of SOLUTION i when defined) + SAVE back to i
                                                                                        (RELEASE.TXT svn 3730)
  * X_MIX n-m: new entries n..m mixed from the CURRENT entries of kind X               (RELEASE.TXT Feb 4 2019)
  * negative numbers are internal/hidden: never dumped                                  (RELEASE.TXT "not dumped")

Content ids:  ("P", kind, n)            the content key (kind, n) had before this simulation
              ("N", tag)                a content created by this simulation (all keys with one tag hold the same content)
              ("M", parent, field, idx, value)   parent content with one named quantity changed

Constructs whose behaviour no document fixes raise OutOfDomain (the generator never produces them):
SAVE of a kind that is not part of the reaction system, reversed ranges, ranges that cross zero, RUN_CELLS of a cell
without solution and mix, mixing gas phases / surfaces of different type, DELETE option without numbers, -all
combined with other DELETE options.
"""
import copy as _copy
from hypothesis import strategies as st

KINDS = ["SOLUTION", "EQUILIBRIUM_PHASES", "EXCHANGE", "SURFACE", "GAS_PHASE", "SOLID_SOLUTIONS", "KINETICS", "MIX",
         "REACTION", "REACTION_TEMPERATURE", "REACTION_PRESSURE"]
SAVEABLE = ["SOLUTION", "EQUILIBRIUM_PHASES", "EXCHANGE", "SURFACE", "GAS_PHASE", "SOLID_SOLUTIONS"]
MIXABLE = ["SOLUTION", "EQUILIBRIUM_PHASES", "EXCHANGE", "SURFACE", "GAS_PHASE", "SOLID_SOLUTIONS", "KINETICS"]
LATE_RANGE = ["SOLUTION", "EQUILIBRIUM_PHASES", "EXCHANGE", "SURFACE", "GAS_PHASE", "SOLID_SOLUTIONS", "KINETICS"]
CELL_REACTANTS = ["EQUILIBRIUM_PHASES", "EXCHANGE", "SURFACE", "GAS_PHASE", "SOLID_SOLUTIONS", "KINETICS"]
USE_KW = {"SOLUTION": "solution", "EQUILIBRIUM_PHASES": "equilibrium_phases", "EXCHANGE": "exchange", "SURFACE": "surface",
          "GAS_PHASE": "gas_phase", "SOLID_SOLUTIONS": "solid_solutions", "KINETICS": "kinetics", "MIX": "mix",
          "REACTION": "reaction", "REACTION_TEMPERATURE": "reaction_temperature", "REACTION_PRESSURE": "reaction_pressure"}
DELETE_OPT = {"SOLUTION": "-solution", "EQUILIBRIUM_PHASES": "-equilibrium_phases", "EXCHANGE": "-exchange",
              "SURFACE": "-surface", "GAS_PHASE": "-gas_phase", "SOLID_SOLUTIONS": "-solid_solutions",
              "KINETICS": "-kinetics", "MIX": "-mix", "REACTION": "-reaction",
              "REACTION_TEMPERATURE": "-reaction_temperature", "REACTION_PRESSURE": "-reaction_pressure"}
MIX_KW = {"SOLUTION": "SOLUTION_MIX", "EQUILIBRIUM_PHASES": "EQUILIBRIUM_PHASES_MIX", "EXCHANGE": "EXCHANGE_MIX",
          "SURFACE": "SURFACE_MIX", "GAS_PHASE": "GAS_PHASE_MIX", "SOLID_SOLUTIONS": "SOLID_SOLUTIONS_MIX",
          "KINETICS": "KINETICS_MIX"}

PRELUDE = """KNOBS
 -convergence_tolerance 1e-12
 -iterations 200
RATES
 Kd_Na
 -start
 10 rate = PARM(1) * M
 20 SAVE rate * TIME
 -end
 Kd_K
 -start
 10 rate = PARM(1) * M
 20 SAVE rate * TIME
 -end
 Kd_Ca
 -start
 10 rate = PARM(1) * M
 20 SAVE rate * TIME
 -end
 Kd_Br
 -start
 10 rate = PARM(1) * M
 20 SAVE rate * TIME
 -end
 Kd_Li
 -start
 10 rate = PARM(1) * M
 20 SAVE rate * TIME
 -end
 Kd_F
 -start
 10 rate = PARM(1) * M
 20 SAVE rate * TIME
 -end
END
"""
RATE_FORMULA = {"Kd_Na": "NaCl", "Kd_K": "KCl", "Kd_Ca": "CaCl2", "Kd_Br": "KBr", "Kd_Li": "LiCl", "Kd_F": "NaF"}
DEF_RATES = ["Kd_Ca", "Kd_K", "Kd_Na"]          # used by KINETICS definitions; the others only arrive through KINETICS_MODIFY
# components that *_MODIFY adds to an existing entry (field "add"): they carry elements that are rare in the rest of the store
PP_ADD = ["Barite", "Fluorite", "Celestite", "Witherite", "Quartz", "Rhodochrosite", "Smithsonite", "Otavite", "Cerussite", "Sylvite"]
GAS_ADD = ["H2S(g)", "N2(g)", "Mtg(g)", "NH3(g)"]
SS_ADD = ["MnZn", "PbCd"]
KIN_ADD = ["Kd_Br", "Kd_Li", "Kd_F"]
EXCH_ADD = {"KX": ("K", 1), "SrX2": ("Sr", 2), "LiX": ("Li", 1), "BaX2": ("Ba", 2)}
SALTS = {"NaCl": {"Na": 1, "Cl": 1}, "KCl": {"K": 1, "Cl": 1}, "CaCl2": {"Ca": 1, "Cl": 2}, "MgCl2": {"Mg": 1, "Cl": 2},
         "Na2SO4": {"Na": 2, "S(6)": 1}, "NaHCO3": {"Na": 1, "C(4)": 1}, "SrCl2": {"Sr": 1, "Cl": 2}}
REDOX_PAIRS = [["Fe(2)", "Fe(3)"], ["N(5)", "N(-3)"], ["S(6)", "S(-2)"], ["N(5)", "N(3)"]]
SS_SETS = {"CaSr": ["Calcite", "Strontianite"], "BaSr": ["Barite", "Celestite"], "MnZn": ["Rhodochrosite", "Smithsonite"],
           "PbCd": ["Cerussite", "Otavite"]}
DEF_SS = ["BaSr", "CaSr"]
# a definition lists 2-3 members of the pool of its solid-solution name in a drawn ORDER, so that two sources of a later
# SOLID_SOLUTIONS_MIX hold the same solid solution with components at different positions / different subsets
SS_POOL = {"CaSr": ["Calcite", "Strontianite", "Witherite"], "BaSr": ["Barite", "Celestite", "Anhydrite"]}
PP_POOL = ["Calcite", "Gypsum", "CO2(g)", "Quartz", "Celestite", "Barite"]
REACTANTS = ["NaCl", "KCl", "CaCl2", "HCl", "NaOH", "CO2", "Na2SO4"]
MODS = {
    "SOLUTION": ["temp", "pH", "mass_water", "cb", "pressure", "tot", "tot_bare", "tot_val", "tot_multi"],
    "EQUILIBRIUM_PHASES": ["moles", "si", "add"],
    "EXCHANGE": ["exchange_gammas", "la", "add"],
    "SURFACE": ["thickness", "la", "grams"],
    "GAS_PHASE": ["volume", "total_p", "moles", "add"],
    "SOLID_SOLUTIONS": ["moles", "a0", "add"],
    "KINETICS": ["m", "step_divide", "cvode_steps", "tol", "add"],
    "REACTION": ["steps", "count_steps"],
    "REACTION_TEMPERATURE": ["temps"],
    "REACTION_PRESSURE": ["pressures", "count"],
}
MOD_RANGE = {"tot_bare": (1e-6, 1e-3), "tot_val": (1e-6, 1e-3), "tot_multi": (1e-6, 1e-3), "add": (1e-3, 0.1), "temp": (5.0, 45.0), "pH": (5.0, 9.0), "mass_water": (0.5, 2.0), "cb": (-1e-4, 1e-4), "pressure": (1.0, 10.0),
             "tot": (1e-4, 1e-2), "moles": (0.0, 1.0), "si": (-1.0, 1.0), "exchange_gammas": (0, 1), "la": (-3.0, 3.0),
             "thickness": (1e-9, 1e-7), "grams": (0.5, 5.0), "volume": (0.5, 5.0), "total_p": (0.1, 5.0), "a0": (0.0, 1.0),
             "m": (1e-4, 1.0), "step_divide": (1, 10), "cvode_steps": (10, 200), "tol": (1e-10, 1e-6),
             "steps": (1e-5, 1e-2), "count_steps": (1, 4), "temps": (10.0, 60.0), "pressures": (1.0, 20.0), "count": (1, 4)}
# lists the dump itself labels "workspace variables" / derived ("List of all elements in phases"): a *_MODIFY re-tidies the entry
# and recomputes them (e.g. -eltList after EQUILIBRIUM_PHASES_MIX had scaled it); they are not quantities of the content
WORKSPACE = {"EQUILIBRIUM_PHASES": ["/eltList", "/assemblage_totals"], "EXCHANGE": ["/totals"], "SURFACE": ["/totals"],
             "SOLID_SOLUTIONS": ["/SSassemblage_totals"], "GAS_PHASE": ["/totals"], "KINETICS": ["/totals"]}
INT_FIELDS = {"exchange_gammas", "step_divide", "cvode_steps", "count_steps", "count"}


class OutOfDomain(Exception):
    pass


def fmt(x):
    if isinstance(x, int):
        return str(x)
    return repr(float(x))


def num(n):
    """a missing number means 1"""
    return 1 if n is None else int(n)


def rng_list(ranges):
    out = []
    for a, b in ranges:
        b = a if b is None else b
        if b < a or (a < 0 and b != a):
            raise OutOfDomain("range %r-%r" % (a, b))
        out.extend(range(a, b + 1))
    return out


def rng_text(a, b):
    return "%d" % a if b is None or b == a else "%d-%d" % (a, b)


# ----------------------------------------------------------------------------------------------- reference model
def attrs_of(d):
    """what the generator has to remember about a definition (type compatibility of later *_MIX, usable mixes)"""
    k, p = d["kind"], d.get("p", {})
    if k == "MIX":
        return {"refs": sorted({int(s) for s, f in p["parts"]}), "parts": [[int(s), float(f)] for s, f in p["parts"]]}
    if k == "GAS_PHASE":
        return {"gtype": p["type"]}
    if k == "SURFACE":
        return {"stype": p.get("edl", "ddl")}
    return {}


class Model(object):
    def __init__(self):
        self.m = {k: {} for k in KINDS}       # kind -> {n: attrs}

    def keys(self, hidden=False):
        return sorted((k, n) for k in KINDS for n in self.m[k] if hidden or n >= 0)

    def resync(self, keys):
        """take the key set from an observation (only after a simulation whose outcome the model does not predict)"""
        self.m = {k: {} for k in KINDS}
        for k, n in keys:
            self.m[k][n] = {"refs": [], "parts": []} if k == "MIX" else {}

    def mix_usable(self, n):
        return n in self.m["MIX"] and all(s in self.m["SOLUTION"] for s in self.m["MIX"][n]["refs"])

    def runnable_cells(self):
        out = []
        for n in sorted(set(self.m["SOLUTION"]) | set(self.m["MIX"])):
            if n < 0:
                continue
            if n in self.m["MIX"]:
                if self.mix_usable(n):
                    out.append(n)
            else:
                out.append(n)
        return out

    def apply(self, op):
        """-> plan dict; the model moves to the state after the simulation (unchanged when an error is expected)"""
        info = _copy.deepcopy(self.m)
        cid = {(k, n): ("P", k, n) for k in KINDS for n in info[k]}
        tagc = [0]
        checks = []
        flags = set()

        def tag(what):
            tagc[0] += 1
            return "%s#%d" % (what, tagc[0])

        # ---- A: read phase
        for md in op.get("mods", []):
            k, n = md["kind"], num(md["n"])
            if k == "MIX" or md["field"] not in MODS.get(k, []):
                raise OutOfDomain("modify field")
            if n in info[k]:
                cid[(k, n)] = ("M", cid[(k, n)], md["field"], md.get("idx", 0), md["value"], md.get("force_comp"))
                flags.add("modify")
                if md["field"] == "add":
                    flags.add("modify_add")
                if md["field"].startswith("tot_"):
                    flags.add("modify_" + md["field"])
            else:
                flags.add("modify_missing")
        first_def = {}
        defined_here = {}
        for d in op.get("defs", []):
            k, n = d["kind"], num(d["n"])
            m = n if d.get("m") is None else int(d["m"])
            if n < 0 or m < n:
                raise OutOfDomain("definition number")
            if k in LATE_RANGE and not op.get("known_overlap"):
                # known finding C14-overlap: these kinds expand `n-m` only after the whole simulation has been read
                if defined_here.get(k, set()) & set(range(n, m + 1)):
                    raise OutOfDomain("overlapping definitions of one kind in one simulation")
                defined_here.setdefault(k, set()).update(range(n, m + 1))
            t = tag("def")
            for i in range(n, m + 1):
                if i in info[k]:
                    flags.add("redefinition")
                info[k][i] = attrs_of(d)
                cid[(k, i)] = ("N", t)
            if m > n:
                flags.add("def_range")
            if d["n"] is None:
                flags.add("absent_number")
            first_def.setdefault(k, n)
            flags.add("def")
        for d in op.get("defs", []):
            s = d.get("p", {}).get("eq")
            if s is not None and s not in info["SOLUTION"]:
                raise OutOfDomain("-equilibrate with a missing solution")
        # ---- B: batch reaction
        r = op.get("react") or {"use": [], "save": []}
        eff = dict(first_def)
        for k, v in r.get("use", []):
            if v == "none":
                eff.pop(k, None)
            else:
                eff[k] = num(v)
                if v is None:
                    flags.add("absent_number")
                if eff[k] < 0:
                    raise OutOfDomain("USE negative")
        cid_at_reaction = dict(cid)
        runs = ("SOLUTION" in eff or "MIX" in eff) and any(k in eff for k in KINDS if k != "SOLUTION")
        expect_error = False
        if runs:
            used = dict(eff)
            if "MIX" in used:
                used.pop("SOLUTION", None)         # the mixture replaces the solution
            missing = [k for k in used if used[k] not in info[k]]
            if "MIX" in used and not missing:
                if any(s not in info["SOLUTION"] for s in info["MIX"][used["MIX"]]["refs"]):
                    missing.append("MIX-ref")
            if "SOLUTION" in eff and "MIX" in eff and eff["SOLUTION"] not in info["SOLUTION"]:
                missing.append("SOLUTION")           # set_use looks the solution up even when a mix is used
            if missing:
                expect_error = True
                if op.get("defs") or op.get("mods") or op.get("copy") or op.get("delete") or op.get("run_cells") or op.get("mixkw"):
                    # known finding C14-pending: COPY / DELETE / RUN_CELLS requests of a simulation that stops with an error
                    # stay pending and are executed by the next run; never generated, only in the registered replay
                    if not op.get("known_pending"):
                        raise OutOfDomain("failing simulation with other requests")
                    flags.add("resync")
                flags.add("use_missing")
            else:
                flags.add("react")
                if "MIX" in used:
                    flags.add("react_mix")
                for k, a, b in r.get("save", []):
                    a1 = num(a)
                    b1 = a1 if b is None else int(b)
                    if a1 < 0 or b1 < a1:
                        raise OutOfDomain("SAVE range")
                    if k not in SAVEABLE or (k != "SOLUTION" and k not in used):
                        raise OutOfDomain("SAVE of a kind outside the system")
                    t = tag("save")
                    last_save_tag = t
                    src_attrs = info[k][used[k]] if k in used else {}
                    for i in range(a1, b1 + 1):
                        info[k][i] = _copy.deepcopy(src_attrs)
                        cid[(k, i)] = ("N", t)
                    flags.add("save")
                    if b1 > a1:
                        flags.add("save_range")
                    if k == "SOLUTION" and "MIX" in used and set(used) == {"MIX"}:
                        checks.append({"c": "mixcons", "mix": used["MIX"], "a": a1, "b": b1, "tag": last_save_tag,
                                       "parts": [[s, f, list(cid_at_reaction[("SOLUTION", s)])] for s, f in info["MIX"][used["MIX"]]["parts"]]})
                if "KINETICS" in used:
                    cid[("KINETICS", used["KINETICS"])] = ("N", tag("kin"))
                    flags.add("kinetics_autosave")
        else:
            if r.get("save"):
                flags.add("save_noop")
            for k, a, b in r.get("save", []):
                if k not in SAVEABLE or num(a) < 0:
                    raise OutOfDomain("SAVE")
        if expect_error:
            return {"expect": {k: ("P",) + k for k in self.keys()}, "hidden": {k: ("P",) + k for k in self.keys(True) if k[1] < 0},
                    "expect_error": True, "checks": [], "flags": flags, "eq_solutions": []}
        # ---- C: RUN_CELLS
        cells = op.get("run_cells") or []
        if cells:
            flags.add("run_cells")
            twin_cells = []
            for n in sorted(set(cells)):
                if n < 0:
                    raise OutOfDomain("RUN_CELLS negative")
                has_mix, has_sol = n in info["MIX"], n in info["SOLUTION"]
                if not (has_mix or has_sol):
                    raise OutOfDomain("RUN_CELLS without solution or mix")
                if has_mix and any(s not in info["SOLUTION"] for s in info["MIX"][n]["refs"]):
                    raise OutOfDomain("RUN_CELLS with dangling mix")
                present = ["MIX" if has_mix else "SOLUTION"] + [k for k in KINDS if k not in ("SOLUTION", "MIX") and n in info[k]]
                twin_cells.append([n, present])
                if present == ["SOLUTION"]:
                    flags.add("run_cells_solution_only")
                info["SOLUTION"][n] = {}
                cid[("SOLUTION", n)] = ("N", tag("cell"))
                for k in CELL_REACTANTS:
                    if n in info[k]:
                        cid[(k, n)] = ("N", tag("cell"))
            if not (op.get("mods") or op.get("defs") or r.get("use") or r.get("save")) and "run_cells_solution_only" not in flags:
                checks.append({"c": "twin", "cells": twin_cells, "time_step": op.get("time_step")})
        # ---- D: *_MIX
        for mk in sorted(op.get("mixkw") or [], key=lambda x: x["n"]):
            k, a = mk["kind"], int(mk["n"])
            b = a if mk.get("m") is None else int(mk["m"])
            if k not in MIXABLE or a < 0 or b < a or not mk["parts"]:
                raise OutOfDomain("mix keyword")
            srcs = [int(s) for s, f in mk["parts"]]
            if len(set(srcs)) != len(srcs) or any(s not in info[k] for s in srcs):
                raise OutOfDomain("mix keyword source")
            for key in ("gtype", "stype"):
                if len({info[k][s].get(key) for s in srcs}) > 1:
                    raise OutOfDomain("mixing different types")
            t = tag("mixkw")
            checks.append({"c": "mixlin", "kind": k, "a": a, "b": b, "tag": t,
                           "parts": [[s, f, list(cid[(k, s)])] for s, f in mk["parts"]]})
            at = _copy.deepcopy(info[k][srcs[0]])
            for i in range(a, b + 1):
                info[k][i] = _copy.deepcopy(at)
                cid[(k, i)] = ("N", t)
            flags.add("mixkw")
        # ---- E: COPY
        for c in op.get("copy") or []:
            kinds = KINDS if c["kind"] == "cell" else [c["kind"]]
            src = int(c["src"])
            targets = rng_list([[int(c["a"]), c.get("b")]])
            for k in kinds:
                if src not in info[k]:
                    flags.add("copy_missing")
                    continue
                for i in targets:
                    if i == src:
                        continue
                    info[k][i] = _copy.deepcopy(info[k][src])
                    cid[(k, i)] = cid[(k, src)]
                    flags.add("copy")
                    if i < 0 or src < 0:
                        flags.add("negative")
            if c["kind"] == "cell":
                flags.add("copy_cell")
            if len(targets) > 1:
                flags.add("copy_range")
        # ---- F: DELETE
        dl = op.get("delete")
        if dl:
            if dl.get("all"):
                if dl.get("cells") or dl.get("items"):
                    raise OutOfDomain("-all with other options")
                for k in KINDS:
                    if info[k]:
                        flags.add("delete")
                    for n in list(info[k]):
                        del info[k][n]
                        del cid[(k, n)]
                flags.add("delete_all")
            else:
                gone = []
                if dl.get("cells") is not None:
                    if not dl["cells"]:
                        raise OutOfDomain("-cells without numbers")
                    for n in rng_list(dl["cells"]):
                        gone.extend((k, n) for k in KINDS)
                    flags.add("delete_cells")
                for k, ranges in dl.get("items") or []:
                    if not ranges:
                        raise OutOfDomain("DELETE option without numbers")
                    gone.extend((k, n) for n in rng_list(ranges))
                for k, n in gone:
                    if n in info[k]:
                        del info[k][n]
                        del cid[(k, n)]
                        flags.add("delete")
                        if n < 0:
                            flags.add("negative")
        self.m = info
        eq = sorted({int(d["p"]["eq"]) for d in op.get("defs", []) if d.get("p", {}).get("eq") is not None})
        return {"expect": {k: cid[k] for k in cid if k[1] >= 0}, "hidden": {k: cid[k] for k in cid if k[1] < 0},
                "expect_error": False, "checks": checks, "flags": flags, "eq_solutions": eq}


# ----------------------------------------------------------------------------------------------- rendering
def render_def(d):
    k, p = d["kind"], d.get("p", {})
    n = d["n"]
    head = k if n is None else "%s %s" % (k, rng_text(n, d.get("m")))
    L = [head]
    if k == "SOLUTION":
        L += [" temp %s" % fmt(p["temp"]), " pH %s" % fmt(p["pH"]), " units mmol/kgw"]
        tot = {}
        for salt, c in p["salts"]:
            for el, nu in SALTS[salt].items():
                tot[el] = tot.get(el, 0.0) + nu * c
        for el, c in p.get("redox", []):
            tot[el] = tot.get(el, 0.0) + c
        for el in sorted(tot):
            L.append(" %s %s" % (el, fmt(float("%.6g" % tot[el]))))
    elif k == "EQUILIBRIUM_PHASES":
        for name, si, moles in p["phases"]:
            L.append(" %s %s %s" % (name, fmt(si), fmt(moles)))
    elif k == "EXCHANGE":
        if p.get("eq") is not None:
            L += [" X %s" % fmt(p["X"]), " -equilibrate %d" % p["eq"]]
        else:
            for name, m in p["comps"]:
                L.append(" %s %s" % (name, fmt(m)))
    elif k == "SURFACE":
        L.append(" Hfo_w %s 600 %s" % (fmt(p["w"]), fmt(p["grams"])))
        if p.get("s") is not None:
            L.append(" Hfo_s %s" % fmt(p["s"]))
        if p.get("eq") is not None:
            L.append(" -equilibrate %d" % p["eq"])
        if p.get("edl") == "no_edl":
            L.append(" -no_edl")
    elif k == "GAS_PHASE":
        if p["type"] == "v":
            L += [" -fixed_volume", " -volume %s" % fmt(p["V"])]
        else:
            L += [" -fixed_pressure", " -pressure %s" % fmt(p["P"]), " -volume %s" % fmt(p["V"])]
        for name, pp in p["comps"]:
            L.append(" %s %s" % (name, fmt(pp)))
        if p.get("eq") is not None:
            L.append(" -equilibrate %d" % p["eq"])
    elif k == "SOLID_SOLUTIONS":
        for st_ in p["sets"]:
            if len(st_) == 3 and not isinstance(st_[1], list):       # older cases: fixed pair in fixed order
                name, m1, m2 = st_
                comps = list(zip(SS_SETS[name], [m1, m2]))
            else:
                name, comps = st_
            L.append(" %s" % name)
            for c, m in comps:
                L.append("  -comp %s %s" % (c, fmt(m)))
    elif k == "KINETICS":
        for rate, m, kk in p["rates"]:
            L += [" %s" % rate, "  -formula %s 1" % RATE_FORMULA[rate], "  -m %s" % fmt(m), "  -m0 %s" % fmt(m),
                  "  -parms %s" % fmt(kk), "  -tol 1e-10"]
        if p.get("nsteps", 1) > 1:
            L.append(" -steps %s in %d steps" % (fmt(p["time"]), p["nsteps"]))
        else:
            L.append(" -steps %s" % fmt(p["time"]))
    elif k == "MIX":
        for s, f in p["parts"]:
            L.append(" %d %s" % (s, fmt(f)))
    elif k == "REACTION":
        for name, coef in p["r"]:
            L.append(" %s %s" % (name, fmt(coef)))
        if p.get("in"):
            L.append(" %s moles in %d steps" % (fmt(p["steps"][0]), p["in"]))
        else:
            L.append(" " + " ".join(fmt(x) for x in p["steps"]) + " moles")
    elif k == "REACTION_TEMPERATURE":
        L.append(" " + " ".join(fmt(x) for x in p["temps"]))
    elif k == "REACTION_PRESSURE":
        L.append(" " + " ".join(fmt(x) for x in p["ps"]))
    else:
        raise OutOfDomain(k)
    return "\n".join(L)


def _pick(names, idx):
    names = sorted(names)
    return names[idx % len(names)] if names else None


def mod_target(md, ent):
    """-> (input lines below the header, path of the named quantity, allowed diff path prefixes, expected value)
    `ent` is the parsed previous content (None when the number does not exist: any well-formed names do)"""
    k, f, idx, v = md["kind"], md["field"], md.get("idx", 0), md["value"]
    if f in INT_FIELDS:
        v = int(v)
    ent = ent or {}
    comps = ent.get("component") if isinstance(ent.get("component"), dict) else {}
    if f == "add":
        # a component that the entry does not have yet is added with the RAW syntax of DUMP ("new components added", RELEASE.TXT
        # svn 3727); only the new component may appear (plus the derived lists in WORKSPACE)
        def choose(pool, have):
            cand = [x for x in pool if x not in have] or list(pool)
            return cand[idx % len(cand)]
        if k == "EQUILIBRIUM_PHASES":
            c = choose(PP_ADD, comps)
            return [" -component %s" % c, "  -si 0", "  -moles %s" % fmt(v)], "/component/%s/moles" % c, ["/component/%s" % c], v
        if k == "GAS_PHASE":
            c = choose(GAS_ADD, comps)
            return [" -component %s" % c, "  -moles %s" % fmt(v)], "/component/%s/moles" % c, ["/component/%s" % c], v
        if k == "SOLID_SOLUTIONS":
            sss = ent.get("solid_solution") if isinstance(ent.get("solid_solution"), dict) else {}
            sname = choose(SS_ADD, sss)
            c1, c2 = SS_SETS[sname]
            return ([" -solid_solution %s" % sname, "  -component %s" % c1, "   -moles %s" % fmt(v), "  -component %s" % c2,
                     "   -moles %s" % fmt(v / 2)], "/solid_solution/%s/component/%s/moles" % (sname, c1), ["/solid_solution/%s" % sname], v)
        if k == "KINETICS":
            c = choose(KIN_ADD, comps)
            return ([" -component %s" % c, "  -namecoef", "   %s 1" % RATE_FORMULA[c], "  -m %s" % fmt(v), "  -m0 %s" % fmt(v), "  -tol 1e-10",
                     "  -d_params", "   0.001"], "/component/%s/m" % c, ["/component/%s" % c], v)
        if k == "EXCHANGE":
            c = choose(sorted(EXCH_ADD), comps)
            el, z = EXCH_ADD[c]
            return ([" -component %s" % c, "  -totals", "   %s %s" % (el, fmt(v)), "   X %s" % fmt(v * z), "  -la 0", "  -charge_balance 0",
                     "  -formula_z 0"], "/component/%s/totals/%s" % (c, el), ["/component/%s" % c], v)
        raise OutOfDomain("add " + k)
    if k == "SOLUTION" and f in ("tot_bare", "tot_val", "tot_multi"):
        # SOLUTION_MODIFY -totals and valence states.  RELEASE.TXT (svn 5281): "change a total for an element ... All valence
        # states of redox elements are adjusted"; NameDouble.cxx merge_redox "accounts for possible conflicts between redox
        # state and totals".  Rule (observed on the unchanged tree and the only reading that leaves one total per element):
        #   naming the bare element E   -> every E(v) entry is removed, E holds the value;
        #   naming one valence E(v)     -> E(v) holds the value, a bare E entry is removed, other valences E(w) stay;
        #   several lines               -> applied one after the other;
        # the -activities of all master species of the element follow (documented adjustment).
        tot = ent.get("totals") if isinstance(ent.get("totals"), dict) else {}
        base = lambda e: e.split("(", 1)[0]
        val_entries = sorted(e for e in tot if "(" in e and base(e) not in ("H", "O"))
        nval = {}
        for e in val_entries:
            nval[base(e)] = nval.get(base(e), 0) + 1
        bases = sorted(nval, key=lambda b: (-min(nval[b], 2), b))          # elements with >= 2 valence entries first
        plain = sorted(e for e in tot if "(" not in e and e not in ("H", "O"))
        picks = []                                                           # (name, value)
        if f == "tot_bare" and bases:
            picks = [(bases[idx % len(bases)], v)]
        elif f == "tot_val" and val_entries:
            picks = [(val_entries[idx % len(val_entries)], v)]
        elif f == "tot_multi":
            a = bases[idx % len(bases)] if bases else None
            if a:
                picks.append((a, v))
            others = [e for e in plain if e != a]
            if others:
                picks.append((others[idx % len(others)], v / 2))
            vals = [e for e in val_entries if base(e) != a and base(e) not in [base(x[0]) for x in picks]]
            if vals:
                picks.append((vals[idx % len(vals)], v / 4))
        if len(picks) >= (2 if f == "tot_multi" else 1):
            lines, allowed, more, absent = [" -totals"], [], [], []
            for name, x in picks:
                x = float("%.6g" % x)
                lines.append("  %s %s" % (name, fmt(x)))
                b = base(name)
                allowed += ["/totals/" + b, "/totals/" + b + "(", "/activities/" + b, "/activities/" + b + "("]
                more.append(("/totals/" + name, x))
                absent.append(b + "(" if "(" not in name else b)
            return {"lines": lines, "path": more[0][0], "allowed": allowed, "value": more[0][1], "more": more[1:], "absent": absent}
        f = "tot"                                                            # nothing suitable in this entry: plain element
    if k == "SOLUTION":
        if f == "tot":
            els = [e for e in (ent.get("totals") or {}) if "(" not in e and e not in ("H", "O")] if isinstance(ent.get("totals"), dict) else []
            el = _pick(els, idx) or "Na"
            # a bare entry may belong to a redox element (after an earlier -totals E): the activities of all its valence
            # master species follow the new total (documented), and no valence entry may appear beside it
            return {"lines": [" -totals", "  %s %s" % (el, fmt(v))], "path": "/totals/" + el, "value": v, "more": [], "absent": [el + "("],
                    "allowed": ["/totals/" + el, "/totals/" + el + "(", "/activities/" + el, "/activities/" + el + "("]}
        return [" -%s %s" % (f, fmt(v))], "/" + f, ["/" + f], v
    if k == "EQUILIBRIUM_PHASES":
        c = _pick(comps, idx) or "Calcite"
        return [" -component %s" % c, "  -%s %s" % (f, fmt(v))], "/component/%s/%s" % (c, f), ["/component/%s/%s" % (c, f)], v
    if k == "EXCHANGE":
        if f == "exchange_gammas":
            return [" -exchange_gammas %d" % v], "/exchange_gammas", ["/exchange_gammas"], v
        # (fixed in /repo ec3a664c: the component is now found by its formula; before that, -component NaX emptied the component)
        c = md.get("force_comp") or _pick(comps, idx) or "X"
        return [" -component %s" % c, "  -la %s" % fmt(v)], "/component/%s/la" % c, ["/component/%s/la" % c], v
    if k == "SURFACE":
        if f == "thickness":
            return [" -thickness %s" % fmt(v)], "/thickness", ["/thickness"], v
        if f == "la":
            c = _pick(comps, idx) or "Hfo_w"
            return [" -component %s" % c, "  -la %s" % fmt(v)], "/component/%s/la" % c, ["/component/%s/la" % c], v
        ch = ent.get("charge_component") if isinstance(ent.get("charge_component"), dict) else {}
        c = _pick(ch, idx)
        if c is None:        # -no_edl surfaces have no charge component after a calculation: fall back to a plain scalar
            return [" -thickness %s" % fmt(1e-8 * v)], "/thickness", ["/thickness"], 1e-8 * v
        return [" -charge_component %s" % c, "  -grams %s" % fmt(v)], "/charge_component/%s/grams" % c, ["/charge_component/%s/grams" % c], v
    if k == "GAS_PHASE":
        if f in ("volume", "total_p"):
            return [" -%s %s" % (f, fmt(v))], "/" + f, ["/" + f], v
        c = _pick(comps, idx) or "CO2(g)"
        return [" -component %s" % c, "  -moles %s" % fmt(v)], "/component/%s/moles" % c, ["/component/%s/moles" % c], v
    if k == "SOLID_SOLUTIONS":
        sss = ent.get("solid_solution") if isinstance(ent.get("solid_solution"), dict) else {}
        s = _pick(sss, idx) or "CaSr"
        if f == "a0":
            return [" -solid_solution %s" % s, "  -a0 %s" % fmt(v)], "/solid_solution/%s/a0" % s, ["/solid_solution/%s/a0" % s], v
        cc = (sss.get(s) or {}).get("component") if isinstance((sss.get(s) or {}).get("component"), dict) else {}
        c = _pick(cc, idx // 2) or SS_SETS.get(s, ["Calcite"])[0]
        p = "/solid_solution/%s/component/%s/moles" % (s, c)
        return [" -solid_solution %s" % s, "  -component %s" % c, "   -moles %s" % fmt(v)], p, [p], v
    if k == "KINETICS":
        if f in ("step_divide", "cvode_steps"):
            return [" -%s %d" % (f, v)], "/" + f, ["/" + f], v
        c = _pick(comps, idx) or "Kd_Na"
        p = "/component/%s/%s" % (c, f)
        return [" -component %s" % c, "  -%s %s" % (f, fmt(v))], p, [p], v
    if k == "REACTION":
        if f == "steps":
            return [" -steps", "  %s" % fmt(v)], "/steps", ["/steps"], [v]
        return [" -count_steps %d" % v], "/count_steps", ["/count_steps"], v
    if k == "REACTION_TEMPERATURE":
        return [" -temps", "  %s" % fmt(v)], "/temps", ["/temps", "/count_temps"], [v]
    if k == "REACTION_PRESSURE":
        if f == "pressures":
            return [" -pressures", "  %s" % fmt(v)], "/pressures", ["/pressures"], [v]
        return [" -count %d" % v], "/count", ["/count"], v
    raise OutOfDomain("modify " + k)


def mod_plan(md, ent):
    """-> dict(lines, path, allowed, value)"""
    r = mod_target(md, ent)
    if isinstance(r, dict):
        r = dict(r)
        r["allowed"] = list(r["allowed"]) + ["/new_def"] + WORKSPACE.get(md["kind"], [])
        return r
    # `-new_def` is an internal flag that every RAW reader clears (dump comment: "candidates with new_def=true")
    return {"lines": r[0], "path": r[1], "allowed": list(r[2]) + ["/new_def"] + WORKSPACE.get(md["kind"], []), "value": r[3]}


def render_mod(md, ent):
    lines = mod_plan(md, ent)["lines"]
    head = "%s_MODIFY" % md["kind"] if md["n"] is None else "%s_MODIFY %d" % (md["kind"], md["n"])
    return "\n".join([head] + lines)


def render_delete(dl):
    L = ["DELETE"]
    if dl.get("all"):
        L.append(" -all")
        return "\n".join(L)
    if dl.get("cells") is not None:
        L.append(" -cells " + " ".join(rng_text(a, b) for a, b in dl["cells"]))
    for k, ranges in dl.get("items") or []:
        L.append(" %s %s" % (DELETE_OPT[k], " ".join(rng_text(a, b) for a, b in ranges)))
    return "\n".join(L)


def render_use_save(r):
    L = []
    for k, v in r.get("use", []):
        L.append("USE %s%s" % (USE_KW[k], "" if v is None else " %s" % v))
    for k, a, b in r.get("save", []):
        L.append("SAVE %s%s" % (USE_KW[k], "" if a is None else " " + rng_text(a, b)))
    return L


def render(op, prev_parsed):
    """one simulation as input text (ends with END)"""
    L = []
    for md in op.get("mods", []):
        L.append(render_mod(md, prev_parsed.get((md["kind"], num(md["n"])))))
    for d in op.get("defs", []):
        L.append(render_def(d))
    L += render_use_save(op.get("react") or {})
    if op.get("run_cells"):
        L.append("RUN_CELLS")
        L.append(" -cells " + " ".join("%d" % n for n in op["run_cells"]))
        if op.get("time_step") is not None:
            L.append(" -time_step %s" % fmt(op["time_step"]))
    for mk in op.get("mixkw") or []:
        L.append("%s %s" % (MIX_KW[mk["kind"]], rng_text(mk["n"], mk.get("m"))))
        for s, f in mk["parts"]:
            L.append(" %d %s" % (s, fmt(f)))
    for c in op.get("copy") or []:
        L.append("COPY %s %d %s" % ("cell" if c["kind"] == "cell" else USE_KW[c["kind"]], c["src"], rng_text(c["a"], c.get("b"))))
    if op.get("delete"):
        L.append(render_delete(op["delete"]))
    L.append("END")
    return "\n".join(L) + "\n"


def explicit_cells(twin_cells):
    """RUN_CELLS -cells i written out as documented: USE every reactant numbered i, SAVE back to i (one simulation per cell)"""
    sims = []
    for n, present in twin_cells:
        L = []
        for k in present:
            L.append("USE %s %d" % (USE_KW[k], n))
        L.append("SAVE solution %d" % n)
        for k in present:
            if k in SAVEABLE and k != "SOLUTION":
                L.append("SAVE %s %d" % (USE_KW[k], n))
        L.append("END")
        sims.append("\n".join(L))
    return "\n".join(sims) + "\n"


# ----------------------------------------------------------------------------------------------- strategies
def _lg(lo, hi, digits=3):
    import math
    return st.floats(math.log10(lo), math.log10(hi), allow_nan=False).map(lambda x: float("%.*g" % (digits, 10 ** x)))


def _un(lo, hi, digits=3):
    return st.floats(lo, hi, allow_nan=False).map(lambda x: float("%.*g" % (digits, x)))


SMALL = [0, 1, 2, 3, 4, 5, 6]
BIG = [9, 12, 30, 100]


def number():
    return st.one_of(st.sampled_from(SMALL), st.sampled_from(SMALL), st.sampled_from(SMALL), st.sampled_from(BIG))


@st.composite
def target_range(draw):
    a = draw(number())
    w = draw(st.sampled_from([0, 0, 0, 1, 2, 3]))
    return a, (a + w if w else None)


@st.composite
def params(draw, kind, M):
    sols = sorted(n for n in M.m["SOLUTION"] if n >= 0)
    if kind == "SOLUTION":
        salts = draw(st.lists(st.sampled_from(sorted(SALTS)), min_size=1, max_size=3, unique=True))
        p = {"salts": [[s, draw(_lg(0.05, 30.0))] for s in salts], "pH": draw(_un(5.5, 9.0)), "temp": draw(_un(10.0, 40.0))}
        if draw(st.integers(0, 2)) == 0:
            # redox elements entered by valence state: the stored totals then hold two entries of one element
            pairs = draw(st.lists(st.integers(0, len(REDOX_PAIRS) - 1), min_size=1, max_size=2, unique=True))
            red = {}
            for i in pairs:
                for name in REDOX_PAIRS[i]:
                    red.setdefault(name, draw(_lg(1e-3, 0.2)))
            p["redox"] = [[name, red[name]] for name in sorted(red)]
        return p
    if kind == "EQUILIBRIUM_PHASES":
        ph = draw(st.lists(st.sampled_from(PP_POOL), min_size=1, max_size=3, unique=True))
        return {"phases": [[x, draw(_un(-3.5, -1.5)) if x == "CO2(g)" else 0.0, draw(st.sampled_from([0.0, 0.001, 0.1, 1.0]))] for x in ph]}
    if kind == "EXCHANGE":
        if sols and draw(st.booleans()):
            return {"eq": draw(st.sampled_from(sols)), "X": draw(_lg(1e-3, 0.2))}
        cs = draw(st.lists(st.sampled_from(["NaX", "KX", "CaX2", "MgX2"]), min_size=1, max_size=3, unique=True))
        return {"comps": [[c, draw(_lg(1e-3, 0.1))] for c in cs]}
    if kind == "SURFACE":
        p = {"w": draw(_lg(1e-4, 5e-3)), "grams": draw(_un(0.5, 3.0)), "s": draw(st.one_of(st.none(), _lg(1e-5, 1e-4))),
             "edl": draw(st.sampled_from(["ddl", "ddl", "no_edl"]))}
        if sols and draw(st.booleans()):
            p["eq"] = draw(st.sampled_from(sols))
        return p
    if kind == "GAS_PHASE":
        t = draw(st.sampled_from(["v", "p"]))
        cs = draw(st.lists(st.sampled_from(["CO2(g)", "Ntg(g)", "Mtg(g)"]), min_size=1, max_size=3, unique=True))
        p = {"type": t, "V": draw(_un(0.5, 3.0)), "P": draw(_un(0.5, 3.0)), "comps": [[c, draw(_lg(1e-3, 0.5))] for c in cs]}
        if t == "v" and sols and draw(st.integers(0, 3)) == 0:
            p["eq"] = draw(st.sampled_from(sols))
        return p
    if kind == "SOLID_SOLUTIONS":
        names = draw(st.lists(st.sampled_from(DEF_SS), min_size=1, max_size=2, unique=True))
        sets = []
        for nm in names:
            cs = draw(st.lists(st.sampled_from(SS_POOL[nm]), min_size=2, max_size=3, unique=True))     # order as drawn
            sets.append([nm, [[c, draw(_lg(1e-4, 0.1))] for c in cs]])
        return {"sets": sets}
    if kind == "KINETICS":
        rs = draw(st.lists(st.sampled_from(DEF_RATES), min_size=1, max_size=3, unique=True))
        return {"rates": [[r, draw(_lg(1e-4, 1e-2)), draw(_lg(1e-5, 1e-2))] for r in rs], "time": draw(_lg(1.0, 50.0)),
                "nsteps": draw(st.sampled_from([1, 1, 2]))}
    if kind == "MIX":
        pool = sols or [1]
        ss = draw(st.lists(st.sampled_from(pool), min_size=1, max_size=min(3, len(pool)), unique=True))
        return {"parts": [[s, draw(_un(0.1, 1.5))] for s in ss]}
    if kind == "REACTION":
        r = draw(st.lists(st.sampled_from(REACTANTS), min_size=1, max_size=2, unique=True))
        p = {"r": [[x, draw(st.sampled_from([1.0, 1.0, 0.5, 2.0]))] for x in r]}
        if draw(st.booleans()):
            p["steps"] = [draw(_lg(1e-5, 5e-3))]
            p["in"] = draw(st.sampled_from([0, 2, 3]))
        else:
            p["steps"] = sorted(draw(st.lists(_lg(1e-5, 5e-3), min_size=1, max_size=3, unique=True)))
        return p
    if kind == "REACTION_TEMPERATURE":
        return {"temps": draw(st.lists(_un(10.0, 50.0), min_size=1, max_size=3))}
    if kind == "REACTION_PRESSURE":
        return {"ps": draw(st.lists(_un(1.0, 20.0), min_size=1, max_size=3))}
    raise ValueError(kind)


@st.composite
def definition(draw, M, kind=None, n=None):
    kind = kind or draw(st.sampled_from(KINDS))
    if n is None:
        a, b = draw(target_range())
        if draw(st.integers(0, 9)) == 0:
            a, b = None, None
    else:
        a, b = n, None
    return {"kind": kind, "n": a, "m": b, "p": draw(params(kind, M))}


def _existing(M, kind):
    return sorted(n for n in M.m[kind] if n >= 0)


def drop_overlaps(defs):
    """exclusion by construction of the known finding (two definitions of one late-expanding kind sharing a number in one
    simulation): the later one is dropped; returns (kept, number dropped)"""
    seen, out, dropped = {}, [], 0
    for d in defs:
        k, n = d["kind"], num(d["n"])
        nums = set(range(n, (n if d.get("m") is None else d["m"]) + 1))
        if k in LATE_RANGE and seen.get(k, set()) & nums:
            dropped += 1
            continue
        seen.setdefault(k, set()).update(nums)
        out.append(d)
    return out, dropped


PURE = {"use": [["SOLUTION", "none"], ["MIX", "none"]], "save": []}


@st.composite
def op_define(draw, M, count=None):
    nd = count or draw(st.integers(1, 3))
    defs = []
    M2 = _copy.deepcopy(M)
    for _ in range(nd):
        d = draw(definition(M2))
        defs.append(d)
        try:
            M2.apply({"defs": [d], "react": PURE})
        except OutOfDomain:
            defs.pop()
    if not defs:
        defs = [draw(definition(M, "SOLUTION"))]
    defs, dropped = drop_overlaps(defs)
    op = {"defs": defs, "react": _copy.deepcopy(PURE)}
    if dropped:
        op["_excluded"] = dropped
    if draw(st.integers(0, 3)) == 0:
        # implicit batch reaction: the first solution/mix defined here reacts with the first reactant of each kind defined here
        first = {}
        for d in defs:
            first.setdefault(d["kind"], num(d["n"]))
        sys_ok = ("SOLUTION" in first or "MIX" in first) and any(k != "SOLUTION" for k in first)
        if sys_ok and ("MIX" not in first or all(s in M2.m["SOLUTION"] for s in M2.m["MIX"][first["MIX"]]["refs"])):
            saves = []
            for k in SAVEABLE:
                if (k == "SOLUTION" or k in first) and draw(st.booleans()):
                    a, b = draw(target_range())
                    saves.append([k, a, b])
            op["react"] = {"use": [], "save": saves}
    return op


@st.composite
def op_react(draw, M):
    sols = _existing(M, "SOLUTION")
    mixes = [n for n in _existing(M, "MIX") if M.mix_usable(n)]
    use = []
    kinds_in = []
    if mixes and (not sols or draw(st.integers(0, 2)) == 0):
        use.append(["MIX", draw(st.sampled_from(mixes))])
        kinds_in.append("MIX")
    elif sols:
        s = draw(st.sampled_from(sols))
        use.append(["SOLUTION", None if (s == 1 and draw(st.integers(0, 4)) == 0) else s])
    else:
        return None
    others = [k for k in KINDS if k not in ("SOLUTION", "MIX") and _existing(M, k)]
    chosen = draw(st.lists(st.sampled_from(others), min_size=0 if kinds_in else 1, max_size=4, unique=True)) if others else []
    if not chosen and not kinds_in:
        return None
    for k in chosen:
        use.append([k, draw(st.sampled_from(_existing(M, k)))])
        kinds_in.append(k)
    saves = []
    for k in SAVEABLE:
        if (k == "SOLUTION" or k in kinds_in) and draw(st.integers(0, 2)) > 0:
            a, b = draw(target_range())
            saves.append([k, a, b])
    op = {"react": {"use": use, "save": saves}}
    if draw(st.integers(0, 4)) == 0:
        op.update(draw(op_copy(M, allow_delete=True)))
    return op


@st.composite
def one_copy(draw, M, hidden=False):
    kind = draw(st.sampled_from(KINDS + ["cell", "cell"]))
    if kind == "cell":
        ex = sorted({n for k in KINDS for n in M.m[k] if n >= 0})
    else:
        ex = _existing(M, kind)
    if ex and draw(st.integers(0, 6)) > 0:
        src = draw(st.sampled_from(ex))
    else:
        src = draw(number())
    a, b = draw(target_range())
    if hidden:
        neg = draw(st.sampled_from([-10, -11, -12]))
        hid = sorted(n for n in (M.m[kind] if kind != "cell" else {}) if n <= -10)
        if hid and draw(st.booleans()):
            src = draw(st.sampled_from(hid))
        else:
            a, b = neg, None
    return {"kind": kind, "src": src, "a": a, "b": b}


@st.composite
def op_copy(draw, M, allow_delete=True, hidden=False):
    cps = [draw(one_copy(M, hidden)) for _ in range(draw(st.sampled_from([1, 1, 2])))]
    op = {"copy": cps}
    if allow_delete and draw(st.integers(0, 3)) == 0:
        # COPY and DELETE in one simulation: the copy is made first
        M2 = _copy.deepcopy(M)
        try:
            M2.apply(op)
        except OutOfDomain:
            return op
        op["delete"] = draw(delete_spec(M2))
    return op


@st.composite
def ranges_for(draw, existing, hidden=()):
    out = []
    for _ in range(draw(st.sampled_from([1, 1, 2, 3]))):
        if existing and draw(st.integers(0, 4)) > 0:
            a = draw(st.sampled_from(existing))
        else:
            a = draw(number())
        w = draw(st.sampled_from([0, 0, 0, 1, 2]))
        out.append([a, a + w if w else None])
    if hidden and draw(st.booleans()):
        out.append([draw(st.sampled_from(sorted(hidden))), None])
    return out


@st.composite
def delete_spec(draw, M, hidden=False):
    mode = draw(st.sampled_from(["items", "items", "items", "cells", "cells", "all"]))
    if mode == "all" and draw(st.integers(0, 2)) > 0:
        mode = "items"
    if mode == "all":
        return {"all": True}
    allnums = sorted({n for k in KINDS for n in M.m[k] if n >= 0})
    dl = {}
    if mode == "cells" or draw(st.integers(0, 5)) == 0:
        dl["cells"] = draw(ranges_for(allnums))
    if mode == "items":
        kinds = draw(st.lists(st.sampled_from(KINDS), min_size=1, max_size=3, unique=True))
        dl["items"] = [[k, draw(ranges_for(_existing(M, k), [n for n in M.m[k] if n < 0] if hidden else ()))] for k in kinds]
    return dl


@st.composite
def op_modify(draw, M):
    kinds = [k for k in KINDS if k != "MIX" and _existing(M, k)]
    if kinds and draw(st.integers(0, 7)) > 0:
        k = draw(st.sampled_from(kinds))
        n = draw(st.sampled_from(_existing(M, k)))
    else:
        k = draw(st.sampled_from([x for x in KINDS if x != "MIX"]))
        n = draw(number())
    f = draw(st.sampled_from(MODS[k]))
    if "add" in MODS[k] and draw(st.integers(0, 2)) == 0:
        f = "add"
    if k == "SOLUTION" and draw(st.booleans()):
        f = draw(st.sampled_from(["tot_bare", "tot_bare", "tot_val", "tot_multi"]))
    lo, hi = MOD_RANGE[f]
    v = draw(st.integers(lo, hi)) if f in INT_FIELDS else draw(_un(lo, hi, 4) if lo <= 0 else _lg(lo, hi, 4))
    md = {"kind": k, "n": None if (n == 1 and draw(st.integers(0, 3)) == 0) else n, "field": f, "idx": draw(st.integers(0, 9)), "value": v}
    op = {"mods": [md]}
    if draw(st.integers(0, 4)) == 0:
        # modify and copy in one simulation: the modification is read first, so the copy receives the modified content
        a, b = draw(target_range())
        op["copy"] = [{"kind": k, "src": num(md["n"]), "a": a, "b": b}]
    return op


@st.composite
def op_mixkw(draw, M):
    kinds = [k for k in MIXABLE if _existing(M, k)]
    if not kinds:
        return None
    k = draw(st.sampled_from(kinds))
    ex = _existing(M, k)
    first = draw(st.sampled_from(ex))
    key = "gtype" if k == "GAS_PHASE" else "stype"
    comp = [n for n in ex if M.m[k][n].get(key) == M.m[k][first].get(key) and n != first]
    more = draw(st.lists(st.sampled_from(comp), min_size=draw(st.sampled_from([0, 1, 1])), max_size=2, unique=True)) if comp else []
    a, b = draw(target_range())
    return {"mixkw": [{"kind": k, "n": a, "m": b, "parts": [[s, draw(_un(0.1, 1.5))] for s in [first] + more]}]}


def reordered(kind, p, draw):
    """a second definition with the same named sub-components in another order / a subset, with new amounts"""
    q = _copy.deepcopy(p)
    amt = lambda: draw(_lg(1e-3, 0.1))
    if kind == "SOLID_SOLUTIONS":
        for st_ in q["sets"]:
            comps = list(reversed(st_[1]))
            if len(comps) == 3 and draw(st.booleans()):
                comps = comps[1:]
            st_[1] = [[c, amt()] for c, m in comps]
        q["sets"].reverse()
    elif kind == "EQUILIBRIUM_PHASES":
        q["phases"] = [[n, si, draw(st.sampled_from([0.001, 0.1, 1.0]))] for n, si, m in reversed(q["phases"])]
    elif kind == "GAS_PHASE":
        q["comps"] = [[n, amt()] for n, pp in reversed(q["comps"])]
        q.pop("eq", None)
    elif kind == "EXCHANGE":
        q["comps"] = [[n, amt()] for n, m in reversed(q["comps"])]
    elif kind == "KINETICS":
        q["rates"] = [[r, amt(), k] for r, m, k in reversed(q["rates"])]
    return q


@st.composite
def op_mix_pair(draw, M):
    """two simulations: two entries of one kind whose sub-components are listed in different order (or one is a subset of the
    other), then X_MIX over both - the mixed entry must hold fraction-weighted sums per NAMED component"""
    kind = draw(st.sampled_from(["SOLID_SOLUTIONS", "SOLID_SOLUTIONS", "SOLID_SOLUTIONS", "EQUILIBRIUM_PHASES", "GAS_PHASE", "EXCHANGE", "KINETICS"]))
    a = draw(number())
    b = draw(number().filter(lambda x: x != a))
    p1 = draw(params(kind, M))
    if kind == "EXCHANGE" and "comps" not in p1:
        p1 = {"comps": [[c, draw(_lg(1e-3, 0.1))] for c in draw(st.lists(st.sampled_from(["NaX", "KX", "CaX2", "MgX2"]), min_size=2, max_size=3, unique=True))]}
    p1.pop("eq", None)
    p2 = reordered(kind, p1, draw)
    d = {"defs": [{"kind": kind, "n": a, "m": None, "p": p1}, {"kind": kind, "n": b, "m": None, "p": p2}], "react": _copy.deepcopy(PURE)}
    t, tb = draw(target_range())
    mix = {"mixkw": [{"kind": kind, "n": t, "m": tb, "parts": [[a, draw(_un(0.1, 1.5))], [b, draw(_un(0.1, 1.5))]]}]}
    return [d, mix]


@st.composite
def op_run_cells(draw, M):
    rc = M.runnable_cells()
    if not rc:
        return None
    cells = draw(st.lists(st.sampled_from(rc), min_size=1, max_size=2, unique=True))
    return {"run_cells": cells}


@st.composite
def op_use_missing(draw, M):
    """USE of a number that does not exist (the run stops with an error; nothing may be created)"""
    sols = _existing(M, "SOLUTION")
    use = []
    kind = draw(st.sampled_from(KINDS))
    missing = [n for n in SMALL + BIG if n not in M.m[kind]]
    if not missing:
        return None
    if kind == "SOLUTION" or not sols:
        use.append(["SOLUTION", draw(st.sampled_from([n for n in SMALL + BIG if n not in M.m["SOLUTION"]] or [77]))])
        if _existing(M, "REACTION"):
            use.append(["REACTION", _existing(M, "REACTION")[0]])
        else:
            use.append(["REACTION", 78])
    else:
        use.append(["SOLUTION", draw(st.sampled_from(sols))])
        use.append([kind, draw(st.sampled_from(missing))])
    a, b = draw(target_range())
    return {"react": {"use": use, "save": [["SOLUTION", a, b]]}}


@st.composite
def op_save_noop(draw, M):
    """a definition followed by SAVE without any reactant: no batch reaction, SAVE has no effect (manual)"""
    d = draw(definition(M, "SOLUTION"))
    a, b = draw(target_range())
    return {"defs": [d], "react": {"use": [], "save": [["SOLUTION", a, b]]}}


@st.composite
def op_seed(draw, M):
    """first simulation: two solutions and a few reactants on small numbers, so that later operations have material"""
    defs = [draw(definition(M, "SOLUTION", n=1)), draw(definition(M, "SOLUTION", n=draw(st.sampled_from([0, 2, 3]))))]
    M2 = _copy.deepcopy(M)
    M2.apply({"defs": defs, "react": PURE})
    kinds = draw(st.lists(st.sampled_from([k for k in KINDS if k != "SOLUTION"]), min_size=2, max_size=5, unique=True))
    for k in kinds:
        a = draw(st.sampled_from([1, 1, 2, 3]))
        b = a + 1 if draw(st.integers(0, 3)) == 0 else None
        defs.append({"kind": k, "n": a, "m": b, "p": draw(params(k, M2))})
    return {"defs": defs, "react": _copy.deepcopy(PURE)}


OPS = ["define", "define", "define", "react", "react", "react", "copy", "copy", "copy", "copy", "copy", "delete", "delete", "delete",
       "delete", "modify", "modify", "modify", "mixkw", "run_cells", "run_cells", "use_missing", "save_noop", "hidden", "mix_pair", "mix_pair"]


@st.composite
def next_op(draw, M):
    t = draw(st.sampled_from(OPS))
    if t == "define":
        return draw(op_define(M))
    if t == "react":
        return draw(op_react(M))
    if t == "copy":
        return draw(op_copy(M))
    if t == "delete":
        return {"delete": draw(delete_spec(M, hidden=True))}
    if t == "modify":
        return draw(op_modify(M))
    if t == "mixkw":
        return draw(op_mixkw(M))
    if t == "run_cells":
        return draw(op_run_cells(M))
    if t == "use_missing":
        return draw(op_use_missing(M))
    if t == "save_noop":
        return draw(op_save_noop(M))
    if t == "mix_pair":
        return draw(op_mix_pair(M))
    return draw(op_copy(M, allow_delete=False, hidden=True))


@st.composite
def history(draw, min_ops=5, max_ops=13):
    M = Model()
    ops = []
    excluded = 0
    op = draw(op_seed(M))
    M.apply(op)
    ops.append(op)
    for _ in range(draw(st.integers(min_ops, max_ops))):
        op = draw(next_op(M))
        if not op:
            continue
        seq = op if isinstance(op, list) else [op]
        M2 = _copy.deepcopy(M)
        try:
            for o in seq:
                excluded += o.pop("_excluded", 0)
                M2.apply(o)
        except OutOfDomain:
            continue
        M = M2
        ops.extend(seq)
    case = {"ops": ops}
    if excluded:
        case["excluded_overlapping_defs"] = excluded
    return case
