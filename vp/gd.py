"""Gibbs-Duhem path integration for C16 (pure Python, no code shared with /repo).

At constant T and P the Gibbs-Duhem relation for 1 kg of water with solute species i (molality m_i, activity a_i) reads

        sum_i m_i d ln a_i + (1/M_w) d ln a_w = 0 ,        1/M_w = 55.50837 mol/kg  (the model's value),

for ANY change of the species molalities (no chemical equilibrium is needed: it is an identity of every activity model whose
ln gamma_i and ln a_w derive from one excess Gibbs energy).  Along a path of nodes k = 0..n the integral is approximated by the
trapezoid rule in ln a:

        G_n = sum_k sum_i 1/2 (m_i,k + m_i,k+1) (ln a_i,k+1 - ln a_i,k) + 55.50837 (ln a_w,n - ln a_w,0)

whose error is c h^2 + O(h^4) when the nodes are equidistant in a smooth path parameter (here: ln t, geometric grid).  The same
node list therefore gives three nested levels (every node, every 2nd, every 4th) and

        G*  = (4 G_fine - G_mid) / 3            Richardson extrapolation (removes the h^2 term)
        G*c = (4 G_mid - G_coarse) / 3          the same one level coarser -> error estimate of G*
        ratio = (G_coarse - G_mid) / (G_mid - G_fine)   ~ 4 in the asymptotic regime.
"""
import math

LN10 = math.log(10.0)
W = 55.50837           # mol H2O per kg (value the PHREEQC model is defined with; DESIGN section 4, rule 6)
ABSENT_MOL = 1e-90     # MOL() of a species that is not in the model is 1e-99


def geometric_grid(t0, t1, n):
    """n+1 nodes t0 .. t1 equidistant in ln t (t1 exactly hit)"""
    r = math.log(t1 / t0)
    return [t0 * math.exp(r * k / n) if k < n else t1 for k in range(n + 1)]


def level_sum(nodes, step):
    """nodes: list of dict(m={species: molality}, lna={species: ln activity}, lnaw=float), equidistant in the path parameter.
    -> (G, S, skipped, mskip) for the sub-grid that takes every `step`-th node; S = sum of |terms| (scale of the relative
    tolerance); skipped = number of (interval, species) pairs where the species is in the model at one end only (trace redox
    species that come and go), mskip = the largest molality among them (the caller bounds it)"""
    n = len(nodes) - 1
    if n % step:
        raise ValueError("number of intervals %d is not a multiple of %d" % (n, step))
    g = s = 0.0
    skipped = 0
    mskip = 0.0
    idx = list(range(0, n + 1, step))
    for a, b in zip(idx[:-1], idx[1:]):
        A, B = nodes[a], nodes[b]
        for sp, ma in A["m"].items():
            mb = B["m"].get(sp)
            if mb is None or ma <= ABSENT_MOL or mb <= ABSENT_MOL:
                if (mb or 0.0) > ABSENT_MOL or ma > ABSENT_MOL:
                    skipped += 1          # present at one end only: no term can be formed
                    mskip = max(mskip, ma, mb or 0.0)
                continue
            term = 0.5 * (ma + mb) * (B["lna"][sp] - A["lna"][sp])
            g += term
            s += abs(term)
    w = W * (nodes[idx[-1]]["lnaw"] - nodes[idx[0]]["lnaw"])
    return g + w, s + abs(w), skipped, mskip


def analyse(nodes):
    """-> dict with the three nested trapezoid sums, the extrapolations and the observed refinement ratio"""
    g1, s1, k1, m1 = level_sum(nodes, 1)
    g2, s2, k2, m2 = level_sum(nodes, 2)
    g4, s4, k4, m4 = level_sum(nodes, 4)
    star = (4.0 * g1 - g2) / 3.0
    star_c = (4.0 * g2 - g4) / 3.0
    d21 = g2 - g1
    d42 = g4 - g2
    ratio = d42 / d21 if d21 != 0.0 else float("inf")
    return {"G_fine": g1, "G_mid": g2, "G_coarse": g4, "S": s1, "G_star": star, "G_star_coarse": star_c,
            "ratio": ratio, "skipped": k1, "max_skipped_molality": max(m1, m2, m4)}


def verdict(an, tol):
    """Decision rule (sound on both sides):
       err  = |G* - G*c| / 3       generous estimate of the error left in G* (a clean O(h^4) remainder would give /15)
       pass          |G*| + err <= tol S
       violation     |G*| - err >  tol S  AND the trapezoid differences shrink ~4x (3.5 <= ratio <= 4.6), i.e. the residual is a
                     resolved property of the integrand and not a quadrature artefact
       inconclusive  everything else (never a violation)"""
    S = an["S"]
    star = abs(an["G_star"])
    err = abs(an["G_star"] - an["G_star_coarse"]) / 3.0
    if star + err <= tol * S:
        return "pass"
    if star - err > tol * S and 3.5 <= an["ratio"] <= 4.6:
        return "violation"
    return "inconclusive"
