"""C18 - generator of inverse-modelling problems that have (by construction) at least one exact mole-balance model.

A case is a JSON-able dict

    {"db": "phreeqc.dat",
     "sols":  [solution dicts of chemgen.render_solution, numbers 1..k]       initial waters (k = 1..3)
     "mix":   [f_1..f_k]                                                         mixing fractions of the forward simulation
     "rxn":   [[reactant text, moles], ...]                                      REACTION (signed amounts; "H2O" = evaporation/dilution)
     "eq":    [[phase, target SI, initial moles], ...]                           optional EQUILIBRIUM_PHASES of the forward step
     "user_phases": [[name, equation text], ...]                                 PHASES defined in the input (fractional formulas)
     "perturb": [{"sol": index (k = the final water), "el": element, "rel": d}]  analyses changed by the factor 1+d
     "inv":   {"phases": [[name, "", "dis" | "pre", force?], ...], "unc": [...], "balances": [[name, [u..]], ...],
               "range": None | "" | number, "minimal": bool, "tolerance": None | number, "mineral_water": None | bool,
               "u_water": None | number, "force_solutions": None | [bool..]},
     "meta":  {"true": {phase: signed moles}, ...}                               labels only; the oracle never reads them}

All chemistry the generator needs (stoichiometry for the "do not precipitate more than there is" bound) is taken from the
database *text* through dbparse / formula.
"""
from hypothesis import strategies as st
from . import chemgen as cg, dbparse, formula as F

DB = "phreeqc.dat"

# element -> (name in SOLUTION, lowest, highest molality, approximate charge per mole at pH 6..9.5)
AQ = {
    "Na": ("Na", 1e-4, 3e-2, 1), "K": ("K", 2e-5, 5e-3, 1), "Ca": ("Ca", 1e-4, 8e-3, 2), "Mg": ("Mg", 5e-5, 5e-3, 2),
    "Cl": ("Cl", 1e-4, 3e-2, -1), "S": ("S(6)", 5e-5, 8e-3, -2), "C": ("C(4)", 2e-4, 8e-3, -1),
    "Si": ("Si", 2e-5, 6e-4, 0), "Br": ("Br", 1e-6, 1e-4, -1), "Li": ("Li", 1e-6, 1e-4, 1), "Sr": ("Sr", 1e-6, 1e-4, 2),
    "Ba": ("Ba", 1e-7, 2e-6, 2), "F": ("F", 2e-6, 1e-4, -1), "Al": ("Al", 1e-8, 1e-6, 0),
}
MAJOR = ["Na", "K", "Ca", "Mg", "Cl", "S", "C"]
MINOR = ["Si", "Br", "Li", "Sr", "Ba", "F", "Al"]

# phases of phreeqc.dat used as reactants / decoys (all have balanced equations; redox-inert)
MINERALS = ["Calcite", "Aragonite", "Dolomite", "Gypsum", "Anhydrite", "Halite", "Sylvite", "CO2(g)", "Strontianite",
            "Witherite", "Celestite", "Barite", "Fluorite", "Chalcedony", "Quartz", "SiO2(a)", "Gibbsite", "Kaolinite",
            "Albite", "Anorthite", "K-feldspar", "K-mica", "Ca-Montmorillonite", "Illite", "Chlorite(14A)", "Talc",
            "Chrysotile", "Sepiolite", "Thenardite", "Mirabilite", "Arcanite", "Epsomite", "Kieserite"]
EXCHANGERS = {"NaX": ("Na", 1), "KX": ("K", 1), "CaX2": ("Ca", 2), "MgX2": ("Mg", 2)}
# phases that behave well in EQUILIBRIUM_PHASES of a dilute water: name -> (lowest, highest target SI)
EQ_OK = {"Calcite": (-0.3, 0.5), "Gypsum": (-0.5, 0.0), "CO2(g)": (-3.5, -1.3), "Chalcedony": (-0.2, 0.3),
         "Dolomite": (-0.3, 0.5), "Fluorite": (-0.5, 0.0), "Barite": (-0.2, 0.5), "Celestite": (-0.5, 0.0)}
REDOX_PHASES = ["Pyrite", "Goethite", "Fe(OH)3(a)", "Siderite", "O2(g)", "Melanterite", "FeS(ppt)", "Hematite", "Sulfur"]


def phase_elements(name, user_phases=()):
    """element stoichiometry of a phase / exchange species / user phase from text"""
    for n, eq in user_phases:
        if n == name:
            return F.elements(eq.split("=")[0].split()[0])
    db = dbparse.load(DB)
    p = db.phase(name)
    if p is not None:
        return p.elements
    if name in db.exchange_species:
        return db.exchange_species[name].elements
    return F.elements(name)


def reactant_text(name, user_phases=()):
    """what is written in REACTION for a transfer of phase `name`"""
    if name == "H2O(g)":
        return "H2O"
    if name in EXCHANGERS:
        return EXCHANGERS[name][0]          # the cation only; the generator pairs exchangers so that charge is kept
    for n, eq in user_phases:
        if n == name:
            return eq.split("=")[0].split()[0]
    return name


# ---------------------------------------------------------------------------------------------- user phases
@st.composite
def user_phase(draw, k):
    a = draw(st.integers(5, 95)) / 100.0
    b = round(1.0 - a, 2)
    kind = draw(st.sampled_from(["carb", "sulf", "plag", "halide"]))
    g = lambda x: ("%.2f" % x).rstrip("0").rstrip(".")
    if kind == "carb":
        return ["Ucarb%d" % k, "Ca%sMg%sCO3 = %s Ca+2 + %s Mg+2 + CO3-2" % (g(a), g(b), g(a), g(b))]
    if kind == "sulf":
        return ["Usulf%d" % k, "Ca%sSr%sSO4 = %s Ca+2 + %s Sr+2 + SO4-2" % (g(a), g(b), g(a), g(b))]
    if kind == "halide":
        return ["Uhal%d" % k, "Na%sK%sCl = %s Na+ + %s K+ + Cl-" % (g(a), g(b), g(a), g(b))]
    al, si = round(2.0 - a, 2), round(2.0 + a, 2)
    return ["Uplag%d" % k, "Na%sCa%sAl%sSi%sO8 + 8 H2O = %s Na+ + %s Ca+2 + %s Al(OH)4- + %s H4SiO4" % (
        g(a), g(b), g(al), g(si), g(a), g(b), g(al), g(si))]


# ---------------------------------------------------------------------------------------------- waters
def W(pairs):
    """weighted choice: W([(3, "a"), (1, "b")])"""
    out = []
    for w, v in pairs:
        out += [v] * w
    return st.sampled_from(out)


@st.composite
def water(draw, number, rich=False, floor=1e-6, minor=("Si", "Br", "Li", "Sr", "F")):
    els = set(draw(st.lists(st.sampled_from(MAJOR), min_size=3 if rich else 2, max_size=7, unique=True)))
    els |= set(draw(st.lists(st.sampled_from(sorted(minor)), min_size=0, max_size=3, unique=True)))
    els |= {"Na", "Cl"}
    comps = {}
    for e in sorted(els):
        name, lo, hi, z = AQ[e]
        lo = max(lo, floor) if e not in ("Al", "Ba") else lo
        comps[e] = draw(cg.logu(lo, max(hi, lo * 3), 3))
    # clear excess of one sign (so that the balancing ion has to be *raised*): one of Na / Cl closes the balance,
    # the other one is raised until the rest of the water has a clear excess of the opposite sign
    ph = draw(cg.uni(6.0, 9.3, 3))
    h1, h2 = 10 ** (6.35 - ph), 10 ** (ph - 10.33)
    zc = -(1.0 + 2.0 * h2) / (1.0 + h1 + h2)          # approximate charge per mole of C(4)
    zof = lambda e: zc if e == "C" else AQ[e][3]
    net = sum(zof(e) * c for e, c in comps.items() if e not in ("Na", "Cl"))
    tot = sum(abs(AQ[e][3]) * c for e, c in comps.items() if e not in ("Na", "Cl"))
    on = draw(st.sampled_from(["Cl", "Na"]))
    other = "Na" if on == "Cl" else "Cl"
    sign = 1 if on == "Cl" else -1          # charge on Cl needs a cation excess
    need = 0.3 * tot + 2e-4 - sign * net    # equivalents the other ion has to bring
    comps[other] = float("%.3g" % max(comps[other], need * 1.01))
    del comps[on]
    comps[on] = 1e-5
    sol = {"number": number, "units": "mol/kgw", "temp": draw(W([(2, 25.0), (1, 10.0), (1, 40.0)])),
           "pH": ph, "pe": 4.0, "water": draw(st.one_of(st.just(1.0), cg.logu(0.3, 3.0, 3))),
           "comps": [[AQ[e][0], comps[e], "charge" if e == on else ""] for e in sorted(comps)]}
    return sol


def approx_moles(sol):
    """element -> approximate moles in the water as defined (the balancing ion is estimated from the charges)"""
    inv = {v[0]: k for k, v in AQ.items()}
    out = {}
    net = 0.0
    on = None
    for name, c, opt in sol["comps"]:
        e = inv.get(name, dbparse.base_element(name))
        if opt == "charge":
            on = e
            continue
        out[e] = out.get(e, 0.0) + c * sol["water"]
        net += (AQ[e][3] if e in AQ else 0) * c * sol["water"]
    if on:
        out[on] = abs(net)
    return out


SILICATES = ["Gibbsite", "Kaolinite", "Albite", "Anorthite", "K-feldspar", "K-mica", "Ca-Montmorillonite", "Illite",
             "Chlorite(14A)", "Talc", "Chrysotile", "Sepiolite", "Chalcedony", "Quartz", "SiO2(a)"]
AL_BA = ["Gibbsite", "Kaolinite", "Albite", "Anorthite", "K-feldspar", "K-mica", "Ca-Montmorillonite", "Illite",
         "Chlorite(14A)", "Witherite", "Barite"]


# ---------------------------------------------------------------------------------------------- the problem
@st.composite
def problem(draw):
    flavour = draw(W([(6, "plain"), (2, "evap"), (1, "trace"), (2, "redox"), (1, "salts")]))
    if flavour == "redox":
        return draw(redox_problem())
    if flavour == "salts":
        return draw(salts_problem())
    nsol = draw(W([(2, 1), (3, 2), (1, 3)]))
    floor = 1e-5 if flavour == "evap" else 1e-6
    minor = ("Si", "Br", "Li", "Sr", "F") + (("Al", "Ba") if flavour == "trace" else ())
    sols = [draw(water(i + 1, rich=(i == 0), floor=floor, minor=minor)) for i in range(nsol)]
    # waters must differ (identical end members make the mixing problem degenerate)
    for i in range(1, nsol):
        for j in range(i):
            if sols[i]["comps"] == sols[j]["comps"]:
                for k, c in enumerate(sols[i]["comps"]):
                    if c[2] != "charge":
                        c[1] = float("%.3g" % (c[1] * (1.0 + 0.37 * i + 0.23 * (k % 4))))      # not proportional either
    if nsol == 1:
        mix = [draw(W([(3, 1.0), (1, 0.5), (1, 2.0)]))]
    else:
        mix = [draw(cg.uni(0.05, 1.0, 2)) for _ in range(nsol)]
    nuser = draw(W([(3, 0), (1, 1), (1, 2)]))
    user_phases = [draw(user_phase(i)) for i in range(nuser)]
    if flavour != "trace":
        user_phases = [u for u in user_phases if not u[0].startswith("Uplag")]
    avail = {}
    water_kg = 0.0
    for s, f in zip(sols, mix):
        water_kg += f * s["water"]
        for e, m in approx_moles(s).items():
            avail[e] = avail.get(e, 0.0) + f * m
    # --- true transfers
    minerals = [m for m in MINERALS if flavour == "trace" or m not in AL_BA]
    pool = minerals + [u[0] for u in user_phases] * 3
    ntrue = draw(W([(1, 1), (3, 2), (3, 3), (2, 4), (1, 5)]))
    chosen = draw(st.lists(st.sampled_from(pool), min_size=ntrue, max_size=ntrue, unique=True))
    chosen = independent_subset(chosen, user_phases)      # no polymorph pairs etc. among the true reactants (see inverse_part)
    true = {}
    eq = []
    use_eq = draw(W([(3, False), (1, True)]))
    for p in chosen:
        els = phase_elements(p, user_phases)
        if use_eq and p in EQ_OK and draw(st.booleans()):
            lo, hi = EQ_OK[p]
            eq.append([p, draw(cg.uni(lo, hi, 2)), draw(st.sampled_from([0.0, 10.0]))])
            true[p] = None
            continue
        dissolve = draw(W([(2, True), (1, False)]))
        a = None
        if not dissolve:
            cap = min((avail.get(e, 0.0) / c for e, c in els.items() if e not in ("H", "O")), default=0.0)
            if cap < 2e-6:
                dissolve = True
            else:
                a = -float("%.3g" % (cap * draw(cg.uni(0.05, 0.6, 2))))
        if dissolve:
            hi = 2e-5 if "Al" in els else 5e-3
            a = draw(cg.logu(max(hi * 1e-3, 1e-6 if "Al" not in els else 2e-8), hi, 3))
        true[p] = a
        for e, c in els.items():
            if e not in ("H", "O"):
                avail[e] = avail.get(e, 0.0) + a * c
    # ion exchange (pairs keep the charge): cation A released, cation B taken up
    if draw(W([(4, False), (1, True)])):
        a_name, b_name = draw(st.lists(st.sampled_from(sorted(EXCHANGERS)), min_size=2, max_size=2, unique=True))
        (ea, za), (eb, zb) = EXCHANGERS[a_name], EXCHANGERS[b_name]
        capb = avail.get(eb, 0.0)
        if capb > 1e-5:
            nb = float("%.3g" % (capb * draw(cg.uni(0.05, 0.5, 2))))       # moles of B taken up
            na = nb * zb / za
            true[a_name] = na
            true[b_name] = -nb
            avail[ea] = avail.get(ea, 0.0) + na
            avail[eb] = capb - nb
    # evaporation / dilution
    if flavour == "evap":
        if draw(W([(2, True), (1, False)])):
            true["H2O(g)"] = -float("%.3g" % (water_kg * 55.5 * draw(cg.uni(0.05, 0.6, 2))))
        else:
            true["H2O(g)"] = float("%.3g" % (water_kg * 55.5 * draw(cg.uni(0.05, 1.0, 2))))
    rxn = [[reactant_text(p, user_phases), a] for p, a in true.items() if a is not None]
    present = set(avail) | {e for s in sols for e in approx_moles(s)}
    inv, meta = draw(inverse_part(nsol, true, user_phases, present, flavour,
                                  decoy_pool=minerals + sorted(EXCHANGERS) + ["H2O(g)"] + [u[0] for u in user_phases]))
    # --- perturbations of the analyses
    perturb = []
    pm = draw(W([(3, "none"), (2, "in"), (1, "out")]))
    if pm != "none":
        unc = inv["unc"]
        for _ in range(draw(st.integers(1, 2))):
            q = draw(st.integers(0, nsol))
            e = draw(st.sampled_from(sorted(present - {"Al"})))
            u = 0.05
            if unc:
                u = unc[min(q, len(unc) - 1)]
            if u <= 0:
                u = 0.02
            mag = draw(cg.uni(0.1, 0.9, 2)) if pm == "in" else draw(cg.uni(1.3, 4.0, 2))
            d = float("%.3g" % (u * mag * draw(st.sampled_from([1, -1]))))
            if d > -0.9:
                perturb.append({"sol": q, "el": e, "rel": d})
    meta.update({"true": dict(true), "perturb": pm, "flavour": flavour})
    return {"kind": "fwd", "db": DB, "sols": sols, "mix": mix, "rxn": rxn, "eq": eq, "user_phases": user_phases,
            "perturb": perturb, "inv": inv, "meta": meta}


@st.composite
def inverse_part(draw, nsol, true, user_phases, present, flavour, decoy_pool):
    phases = []
    drop = draw(W([(9, False), (1, True)])) and len(true) > 1
    tnames = list(true)
    if drop:
        tnames = tnames[:-1]
    ndecoy = draw(W([(2, 0), (3, 1), (3, 2), (2, 3), (1, 4), (1, 5), (1, 6), (1, 8)]))
    dpool = [p for p in decoy_pool if p not in true]
    decoys = draw(st.lists(st.sampled_from(dpool), min_size=min(ndecoy, len(dpool)), max_size=min(ndecoy, len(dpool)), unique=True))
    # keep only phases whose element stoichiometries are linearly independent (well conditioned): polymorphs (calcite +
    # aragonite), hydrates of one salt, or closed exchange loops give a non-unique, degenerate optimisation problem in which
    # the pinned tree's LP solver silently returns wrong answers (known findings F3-F5); true phases are kept first
    kept = independent_subset(tnames + decoys, user_phases)
    dropped_dep = [p for p in tnames if p not in kept]
    allp = draw(st.permutations(kept))
    for p in allp[:12]:
        a = true.get(p)
        mode = draw(W([(4, ""), (4, "ok"), (1, "bad")]))
        con = ""
        if mode == "ok" and a is not None:
            con = "dis" if a > 0 else "pre"
        elif mode == "bad" or (mode == "ok" and p not in true and draw(st.booleans())):
            con = draw(st.sampled_from(["dis", "pre"]))
        phases.append([p, con, draw(W([(5, False), (1, True)]))])
    nall = nsol + 1
    umode = draw(W([(3, "default"), (3, "one"), (3, "per"), (1, "abs"), (1, "zero")]))
    if umode == "default":
        unc = []
    elif umode == "one":
        unc = [draw(cg.logu(0.005, 0.3, 2))]
    elif umode == "per":
        unc = [draw(cg.logu(0.005, 0.3, 2)) for _ in range(draw(st.integers(2, nall)))]
    elif umode == "abs":
        unc = [-draw(cg.logu(1e-7, 1e-4, 2))]
    else:
        # nearly exact analyses; a global uncertainty of exactly 0 is not generated: every model then sits on the razor edge of
        # feasibility, where the pinned tree reports models from LPs it found infeasible (known finding F1, silent) - zero limits
        # of single elements (-balances) are generated
        unc = [draw(cg.logu(1e-3, 5e-3, 2))]
    inphase = set()
    for p, _, _ in phases:
        inphase |= set(phase_elements(p, user_phases))
    balances = []
    cand = sorted((present | inphase) - {"H", "O", "X", "e"})
    # every charged element of the waters needs a balance equation (the charge balance of each water is formed from the
    # elements of the model only); neutral or trace elements may be left out
    must = [e for e in sorted(present - inphase) if not (e in ("Si", "Al", "Br", "Li", "F", "Ba") and draw(W([(3, False), (1, True)])))]
    extra = draw(st.lists(st.sampled_from(cand), max_size=4, unique=True)) if cand else []
    for e in draw(st.permutations(must + [e for e in extra if e not in must])):
        name = e
        if e in ("S", "C", "Fe") and draw(st.booleans()):
            name = {"S": "S(6)", "C": "C(4)", "Fe": "Fe(2)"}[e]
        k = draw(W([(4, 0), (2, 1), (1, 2), (1, nall)]))
        us = []
        for _ in range(k):
            us.append(draw(st.one_of(cg.logu(0.003, 0.5, 2), st.sampled_from([0.0, 1.0, 2.0, -1e-6, -1e-5, 0.05]))))
        balances.append([name, us])
    loose = draw(W([(7, False), (1, True)]))      # wide pH and alkalinity limits: models survive a wrong alkalinity bookkeeping
    if loose:
        balances.append(["pH", [draw(st.sampled_from([0.5, 1.0]))]])
        balances.append(["Alkalinity", [draw(st.sampled_from([1.0, 2.0]))]])
    else:
        if draw(W([(3, False), (1, True)])):
            balances.append(["pH", [draw(st.sampled_from([0.01, 0.1, 0.3, 0.05]))] * draw(st.integers(1, nall))])
        if draw(W([(3, False), (1, True)])):
            balances.append(["Alkalinity", [draw(st.sampled_from([0.02, 0.1, 1.0, -1e-5, -1e-4, 0.5]))]])
    has_water = "H2O(g)" in true
    # a tolerance above the default only with uncertainty limits that stay far above it (manual: "tol should not be too large or
    # significantly different concentrations will be treated as equal"; limits below tol are taken as zero)
    allu = [u for u in unc if u > 0] + [u for b, us in balances if b != "pH" for u in us if u > 0]
    coarse_ok = umode != "zero" and (not allu or min(allu) >= 0.01)
    inv = {"phases": phases, "unc": unc, "balances": balances,
           "range": draw(W([(3, None), (3, ""), (1, 2000.0), (1, 500.0), (1, 1e5)])),
           "minimal": draw(W([(2, False), (1, True)])),
           "tolerance": draw(W([(4, None), (1, 1e-9), (1, 1e-8)])) if coarse_ok else None,
           "mineral_water": draw(W([(3, None), (1, True), (1, False)])) if not has_water else draw(W([(3, None), (1, True)])),
           "u_water": draw(W([(5, None), (1, 0.5), (1, 0.01)])),
           "force_solutions": draw(W([(4, None), (1, [True]), (1, [True, False]), (1, [False, True, True])]))}
    return inv, {"dropped_true": bool(drop) or bool(dropped_dep), "umode": umode}


def independent_subset(names, user_phases, smin=0.12):
    """greedy: a phase is kept if the unit-normalised stoichiometry columns (elements other than H, O, e) of the kept
    phases plus this one have a smallest singular value >= smin"""
    import numpy as np
    kept, cols, els = [], [], []
    for p in names:
        if p == "H2O(g)":
            kept.append(p)
            continue
        v = {e: c for e, c in phase_elements(p, user_phases).items() if e not in ("H", "O", "e")}
        if not v:
            kept.append(p)          # O2(g), H2(g): no mole-balance column besides redox / water
            continue
        for e in v:
            if e not in els:
                els.append(e)
        trial = cols + [v]
        M = np.array([[c.get(e, 0.0) for c in trial] for e in els], dtype=float)
        M = M / np.linalg.norm(M, axis=0)
        sv = np.linalg.svd(M, compute_uv=False)
        if len(sv) >= len(trial) and sv[-1] >= smin:
            kept.append(p)
            cols = trial
    return kept


# ---------------------------------------------------------------------------------------------- several equally good models
SALT_SQUARES = [("Halite", "Arcanite", "Sylvite", "Thenardite"),        # 2 NaCl + K2SO4 = 2 KCl + Na2SO4
                ("Halite", "Kieserite", "Thenardite", "Uchl"),          # 2 NaCl + MgSO4 = Na2SO4 + MgCl2
                ("Sylvite", "Kieserite", "Arcanite", "Uchl")]           # 2 KCl + MgSO4 = K2SO4 + MgCl2


@st.composite
def salts_problem(draw):
    """reciprocal salt pairs: the same change of the water is explained by two different pairs of a salt square, so several models
    are reported (deliberately NOT filtered for linear independence); -range in most cases, permuted -phases order"""
    sq = draw(st.sampled_from(SALT_SQUARES))
    user_phases = [["Uchl", "MgCl2 = Mg+2 + 2 Cl-"]] if "Uchl" in sq else []
    sol = draw(water(1, rich=True, floor=1e-5, minor=("Br", "Li")))
    pair = draw(st.sampled_from([(sq[0], sq[1]), (sq[2], sq[3])]))
    a = draw(cg.logu(2e-4, 3e-3, 2))
    true = {pair[0]: a, pair[1]: float("%.3g" % (a * draw(st.sampled_from([0.5, 0.5, 0.3, 1.0]))))}
    if draw(st.booleans()):
        true["Calcite"] = draw(cg.logu(1e-5, 5e-4, 3))
    rxn = [[reactant_text(p, user_phases), v] for p, v in true.items()]
    extra = draw(st.lists(st.sampled_from(["CO2(g)", "Gypsum", "Dolomite", "Celestite", "Chalcedony"]), max_size=2, unique=True))
    names = draw(st.permutations(list(sq) + [p for p in true if p not in sq] + [e for e in extra if e not in true]))
    phases = [[p, draw(W([(3, ""), (1, "dis")])) if p in sq else "", False] for p in names]
    present = set(approx_moles(sol)) | {"Na", "K", "Mg", "S", "Cl"}
    inphase = set()
    for p, _, _ in phases:
        inphase |= set(phase_elements(p, user_phases))
    balances = [[e, []] for e in sorted(present - inphase)]
    inv = {"phases": phases, "unc": draw(st.sampled_from([[], [0.05], [0.1], [0.03, 0.08]])), "balances": balances,
           "range": draw(W([(4, ""), (1, None), (1, 2000.0)])), "minimal": draw(W([(3, False), (1, True)])), "tolerance": None,
           "mineral_water": None, "u_water": None, "force_solutions": None}
    meta = {"true": dict(true), "perturb": "none", "flavour": "salts", "dropped_true": False, "umode": "one" if inv["unc"] else "default"}
    return {"kind": "fwd", "db": DB, "sols": [sol], "mix": [1.0], "rxn": rxn, "eq": [], "user_phases": user_phases,
            "perturb": [], "inv": inv, "meta": meta}


# ---------------------------------------------------------------------------------------------- redox problems
@st.composite
def redox_problem(draw):
    """pyrite oxidation by dissolved oxygen (A), sulfate reduction by organic matter (B), denitrification by organic matter with
    loss of N2(g) (C), organic matter oxidised while O2(g) enters the water (D), H2(g) entering a sulfate water (E): the phases
    N2(g), O2(g), H2(g) are written with diatomic secondary master species (2 atoms per mole in the N(0) / O(0) / H(0) rows)"""
    scen = draw(st.sampled_from(["A", "B", "C", "C", "D", "E"]))
    user_phases = [["CH2O", "CH2O + H2O = CO2 + 4 H+ + 4 e-"]]
    base = {"Na": draw(cg.logu(1e-3, 2e-2, 3)), "Ca": draw(cg.logu(2e-4, 3e-3, 3)), "C(4)": draw(cg.logu(5e-4, 5e-3, 3)),
            "S(6)": draw(cg.logu(2e-4, 5e-3, 3)), "Mg": draw(cg.logu(1e-4, 2e-3, 3))}
    if scen in ("C", "D"):
        del base["S(6)"]          # no sulfate: the forward step stays a nitrate / oxygen problem (and converges)
    comps = [[k, v, ""] for k, v in sorted(base.items())] + [["Cl", 1e-5, "charge"]]
    true = {}
    if scen == "A":
        o2 = draw(cg.logu(1e-4, 4e-4, 3))
        comps.append(["O(0)", o2, ""])
        pe = 12.0
        py = float("%.3g" % (o2 / 2.0 / 3.75 * draw(cg.uni(0.1, 0.8, 2))))     # 3.75 O2 per pyrite
        true["Pyrite"] = py
        if draw(st.booleans()):
            true["Calcite"] = draw(cg.logu(1e-5, 5e-4, 3))
        eq = [["Goethite", 0.0, 0.0]] if draw(st.booleans()) else []
        if eq:
            true["Goethite"] = None
        decoys = ["O2(g)", "Fe(OH)3(a)", "Gypsum", "Siderite", "CO2(g)", "Melanterite", "Dolomite", "Hematite"]
    elif scen == "C":
        n5 = draw(cg.logu(2e-4, 3e-3, 3))
        comps.append(["N(5)", n5, ""])
        pe = 10.0
        ch = float("%.3g" % (1.25 * n5 * draw(cg.uni(0.15, 0.8, 2))))           # 4 e- per CH2O, 5 e- per nitrate N
        true["CH2O"] = ch
        true["N2(g)"] = -float("%.3g" % (0.4 * ch * draw(cg.uni(0.3, 0.9, 2))))    # part of the N2 formed leaves the water
        if draw(st.booleans()):
            true["Calcite"] = draw(cg.logu(1e-5, 5e-4, 3))
        eq = []
        decoys = ["CO2(g)", "Halite", "Gypsum", "Dolomite", "NH3(g)", "O2(g)", "CH4(g)", "H2(g)"]
    elif scen == "D":
        o2 = draw(cg.logu(5e-5, 3e-4, 3))
        comps.append(["O(0)", o2, ""])
        pe = 12.0
        gas = draw(cg.logu(5e-5, 5e-4, 3))                                          # O2 entering
        true["O2(g)"] = gas
        true["CH2O"] = float("%.3g" % ((o2 / 2.0 + gas) * draw(cg.uni(0.1, 0.8, 2))))   # 1 O2 per CH2O, water stays oxic
        if draw(st.booleans()):
            true["Calcite"] = draw(cg.logu(1e-5, 5e-4, 3))
        eq = []
        decoys = ["CO2(g)", "Halite", "Gypsum", "Dolomite", "N2(g)", "H2(g)", "Pyrite", "Goethite"]
    elif scen == "E":
        pe = 0.0
        true["H2(g)"] = draw(cg.logu(1e-5, 2e-4, 3))
        if draw(st.booleans()):
            true["Calcite"] = draw(cg.logu(1e-5, 5e-4, 3))
        eq = []
        decoys = ["CO2(g)", "Halite", "Gypsum", "Dolomite", "CH2O", "CH4(g)", "H2S(g)", "O2(g)", "Sulfur"]
    else:
        comps.append(["Fe(2)", draw(cg.logu(2e-6, 3e-5, 3)), ""])
        pe = 0.0
        ch = draw(cg.logu(2e-5, 5e-4, 3))
        true["CH2O"] = ch
        if draw(st.booleans()):
            true["Calcite"] = draw(cg.logu(1e-5, 5e-4, 3))
        eq = []
        decoys = ["Pyrite", "Goethite", "Gypsum", "Siderite", "CO2(g)", "FeS(ppt)", "Dolomite", "Sulfur", "CH4(g)", "H2S(g)"]
    sol = {"number": 1, "units": "mol/kgw", "temp": 25.0, "pH": draw(cg.uni(6.5, 8.5, 3)), "pe": pe, "water": 1.0, "comps": comps}
    rxn = [[reactant_text(p, user_phases), a] for p, a in true.items() if a is not None]
    present = {"Na", "Ca", "C", "Mg", "Cl"} | ({"Fe"} if scen == "B" else set()) | ({"N"} if scen == "C" else set()) | (
        {"S"} if scen not in ("C", "D") else set())
    inv, meta = draw(inverse_part(1, true, user_phases, present, "redox", decoy_pool=decoys))
    inv["mineral_water"] = None
    meta.update({"true": dict(true), "perturb": "none", "flavour": "redox" + scen})
    return {"kind": "fwd", "db": DB, "sols": [sol], "mix": [1.0], "rxn": rxn, "eq": eq, "user_phases": user_phases,
            "perturb": [], "inv": inv, "meta": meta}


# ---------------------------------------------------------------------------------------------- rendering
def render_user_phases(case):
    if not case["user_phases"]:
        return []
    L = ["PHASES"]
    for n, eq in case["user_phases"]:
        L += [n, " " + eq, " log_k 0.0"]
    return L


def punch_names(case, db):
    """names whose total moles are read back: every element of the waters / reactants / phases with all its valence states"""
    els = set()
    for s in case["sols"]:
        for c in s["comps"]:
            els.add(dbparse.base_element(c[0]))
    for p, _, _ in case["inv"]["phases"]:
        els |= set(phase_elements(p, case["user_phases"]))
    for r, a in case["rxn"]:
        try:
            els |= set(phase_elements(r, case["user_phases"]))
        except F.FormulaError:
            pass
    for p, _, _ in case["eq"]:
        els |= set(phase_elements(p, case["user_phases"]))
    for b, _ in case["inv"]["balances"]:
        if b not in ("pH", "Alkalinity"):
            els.add(dbparse.base_element(b))
    els -= {"H", "O", "X", "e"}
    names = []
    for e in sorted(els):
        if e not in db.master:
            continue
        names.append(e)
        for k, m in db.master.items():
            if m.base == e and not m.primary:
                names.append(k)
    return names


def render_forward(case, names):
    L = [cg.KNOBS_TIGHT] + render_user_phases(case)
    for s in case["sols"]:
        L.append(cg.render_solution(s))
    L += ["SELECTED_OUTPUT 1", " -reset false", " -inverse_modeling false", " -solution true", " -high_precision true",
          "USER_PUNCH 1", " -headings water pH pe tc alk " + " ".join("m_" + n for n in names), " -start",
          ' 10 PUNCH TOT("water"), -LA("H+"), -LA("e-"), TC, ALK*TOT("water")']
    for i, n in enumerate(names):
        L.append(' %d PUNCH TOTMOLE("%s")' % (20 + i, n))
    L += [" -end", "END"]
    k = len(case["sols"])
    if k == 1 and case["mix"][0] == 1.0:
        L.append("USE solution 1")
    else:
        L.append("MIX 1")
        for s, f in zip(case["sols"], case["mix"]):
            L.append(" %d %s" % (s["number"], cg.fmt(f)))
    if case["rxn"]:
        L.append("REACTION 1")
        for r, a in case["rxn"]:
            L.append(" %s %s" % (r, cg.fmt(a)))
        L.append(" 1 moles in 1 steps")
    if case["eq"]:
        L.append("EQUILIBRIUM_PHASES 1")
        for p, si, m in case["eq"]:
            L.append(" %s %s %s" % (p, cg.fmt(si), cg.fmt(m)))
    L += ["SAVE solution 10", "END"]
    return "\n".join(L) + "\n"


FINAL = 10


def render_explicit(number, comp, names_aq, factors):
    """comp: measured composition dict (water, pH, pe, tc, m_<el>); names_aq: [(base element, SOLUTION name)]"""
    w = comp["water"]
    L = ["SOLUTION %d" % number, " temp %s" % cg.fmt(comp["tc"]), " pH %s" % cg.fmt(comp["pH"]), " pe %s" % cg.fmt(comp["pe"]),
         " units mol/kgw"]
    for e, name in names_aq:
        m = comp.get("m_" + e, 0.0) or 0.0
        if m <= 0.0:
            continue
        L.append(" %s %s" % (name, cg.fmt(m / w * factors.get(e, 1.0))))
    L.append(" -water %s" % cg.fmt(w))
    return "\n".join(L)


def render_inverse(case, numbers):
    inv = case["inv"]
    L = ["SELECTED_OUTPUT 2", " -reset false", " -inverse_modeling true", " -high_precision true",
         "INVERSE_MODELING 1", " -solutions " + " ".join(str(n) for n in numbers)]
    if inv["unc"]:
        L.append(" -uncertainty " + " ".join(cg.fmt(u) for u in inv["unc"]))
    L.append(" -phases")
    for p, con, force in inv["phases"]:
        L.append("  %s %s %s" % (p, con, "force" if force else ""))
    if inv["balances"]:
        L.append(" -balances")
        for b, us in inv["balances"]:
            L.append("  %s %s" % (b, " ".join(cg.fmt(u) for u in us)))
    if inv["range"] is not None:
        L.append(" -range %s" % (cg.fmt(inv["range"]) if inv["range"] != "" else ""))
    if inv["minimal"]:
        L.append(" -minimal")
    if inv["tolerance"] is not None:
        L.append(" -tolerance %s" % cg.fmt(inv["tolerance"]))
    if inv["mineral_water"] is not None:
        L.append(" -mineral_water %s" % str(inv["mineral_water"]).lower())
    if inv["u_water"] is not None:
        L.append(" -uncertainty_water %s" % cg.fmt(inv["u_water"]))
    if inv["force_solutions"] is not None:
        L.append(" -force_solutions " + " ".join(str(b).lower() for b in inv["force_solutions"]))
    L.append("END")
    return "\n".join(L) + "\n"
