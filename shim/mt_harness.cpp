// C06 multi-thread harness: executes a *schedule program* on the IPhreeqc library either concurrently
// (one std::thread per program thread, barriers honoured) or sequentially (programs one after another in
// the main thread, barriers ignored) and writes everything observed to a result file.
//
//   mt_harness [--mode conc|seq] [--iters K] [--reverse] [--only T] [--full DIR] --out RESULT SCHEDULE
//     --reverse / --only T (sequential mode): thread programs in reverse order / only the program of thread T
//     --inst T I (sequential mode): only the call sequence of ONE instance: the one created by operation I of thread T
//                (that create, every later operation of thread T on the same slot up to and including its destroy)
//
// Schedule format (text, one statement per line, tokens separated by blanks, paths without blanks):
//   C06SCHED 1
//   threads N                      N in 1..16
//   barrier ID COUNT               a barrier and the number of threads that wait on it
//   thread K                       starts the program of thread K (0-based); statements until `end`
//     create SLOT c|cpp            CreateIPhreeqc() / new IPhreeqc
//     load SLOT file|string PATH   LoadDatabase(PATH) / LoadDatabaseString(content of PATH)
//     set SLOT HEXMASK             bit0 OutputString 1 LogString 2 DumpString 3 ErrorString 4 SelectedOutputString(1..3)
//                                  bit5 OutputFile 6 LogFile 7 ErrorFile 8 DumpFile 9 SelectedOutputFile(1..3)
//     run SLOT string|file|accum PATH     RunString / RunFile / AccumulateLine* + RunAccumulated
//     read SLOT                    read every channel (tables bitwise, strings, files, names, counts)
//     destroy SLOT                 DestroyIPhreeqc / delete
//     bar ID                       wait on barrier ID (ids strictly increasing inside a thread)
//   end
//
// Result file: one `R iter thread opidx op slot k=v ...` line per executed operation (a pure function of the
// per-thread program, ids excepted), one `S iter ...` line of overlap statistics per iteration (timing
// dependent, informational), final line `E ok`.
//
// The overlap counters use *relaxed* atomics only: they create no happens-before edge, so they cannot hide a race
// from ThreadSanitizer.  Barriers (pthread_barrier) are real synchronisation and part of the schedule.
#include <atomic>
#include <cstdio>
#include <cstdlib>
#include <cstring>
#include <cstdint>
#include <string>
#include <vector>
#include <map>
#include <thread>
#include <fstream>
#include <sstream>
#include <chrono>
#include <pthread.h>
#include <unistd.h>
#include <sys/stat.h>

#include "IPhreeqc.h"
#include "IPhreeqc.hpp"
#include "Var.h"

// ------------------------------------------------------------------------------------------------ program
enum Kind { K_CREATE, K_LOAD, K_SET, K_RUN, K_READ, K_DESTROY, K_BAR };
static const char *KNAME[] = {"create", "load", "set", "run", "read", "destroy", "bar"};

struct Op {
	Kind kind;
	int slot;
	int a;              // create: 0 c / 1 cpp; load: 0 file / 1 string; run: 0 string / 1 file / 2 accum; set: mask; bar: id
	std::string path;   // load / run
	std::string text;   // content of path when needed
};

struct Program { std::vector<Op> ops; };

static int g_nthreads = 0;
static std::vector<Program> g_prog;
static std::map<int, int> g_barcount;
static std::map<int, pthread_barrier_t *> g_bar;
static bool g_conc = true;
static bool g_reverse = false;   // sequential mode: run the thread programs in reverse thread order
static int g_only = -1;          // sequential mode: run only this thread's program ("solo" reference)
static int g_inst_op = -1;       // with g_only: run only the instance created by this operation index (per-instance reference)
static std::string g_full;

static void die(const char *fmt, const std::string &a = "")
{
	fprintf(stderr, "mt_harness: ");
	fprintf(stderr, fmt, a.c_str());
	fprintf(stderr, "\n");
	_exit(2);
}

static bool slurp(const std::string &p, std::string &out)
{
	std::ifstream f(p.c_str(), std::ios::binary);
	if (!f) return false;
	std::ostringstream ss;
	ss << f.rdbuf();
	out = ss.str();
	return true;
}

static void parse(const std::string &path)
{
	std::ifstream f(path.c_str());
	if (!f) die("cannot open schedule %s", path);
	std::string line;
	int cur = -1;
	bool header = false;
	while (std::getline(f, line)) {
		std::istringstream is(line);
		std::string w;
		if (!(is >> w) || w[0] == '#') continue;
		if (w == "C06SCHED") { header = true; continue; }
		if (!header) die("missing header");
		if (w == "threads") {
			is >> g_nthreads;
			if (g_nthreads < 1 || g_nthreads > 16) die("bad thread count");
			g_prog.resize(g_nthreads);
		} else if (w == "barrier") {
			int id, n;
			if (!(is >> id >> n) || n < 1 || n > g_nthreads) die("bad barrier line: %s", line);
			g_barcount[id] = n;
		} else if (w == "thread") {
			if (!(is >> cur) || cur < 0 || cur >= g_nthreads) die("bad thread line: %s", line);
		} else if (w == "end") {
			cur = -1;
		} else {
			if (cur < 0) die("statement outside a thread: %s", line);
			Op op;
			op.a = 0;
			op.slot = -1;
			std::string s;
			if (w == "create") {
				op.kind = K_CREATE;
				is >> op.slot >> s;
				op.a = (s == "cpp");
			} else if (w == "load") {
				op.kind = K_LOAD;
				is >> op.slot >> s >> op.path;
				op.a = (s == "string");
				if (op.a && !slurp(op.path, op.text)) die("cannot read %s", op.path);
			} else if (w == "set") {
				op.kind = K_SET;
				is >> op.slot >> s;
				op.a = (int) strtol(s.c_str(), 0, 16);
			} else if (w == "run") {
				op.kind = K_RUN;
				is >> op.slot >> s >> op.path;
				op.a = s == "string" ? 0 : s == "file" ? 1 : 2;
				if (op.a != 1 && !slurp(op.path, op.text)) die("cannot read %s", op.path);
			} else if (w == "read") {
				op.kind = K_READ;
				is >> op.slot;
			} else if (w == "destroy") {
				op.kind = K_DESTROY;
				is >> op.slot;
			} else if (w == "bar") {
				op.kind = K_BAR;
				is >> op.a;
			} else die("unknown statement: %s", line);
			if (!is && op.kind != K_BAR) die("malformed statement: %s", line);
			if (op.kind != K_BAR && (op.slot < 0 || op.slot > 63)) die("bad slot: %s", line);
			g_prog[cur].ops.push_back(op);
		}
	}
	if (g_nthreads == 0) die("no threads");
	// static validation of the barriers: declared count == number of threads using it, used once per thread,
	// ids increasing inside each thread (=> no deadlock can come from the harness itself)
	std::map<int, int> used;
	for (int t = 0; t < g_nthreads; t++) {
		int last = -1;
		for (size_t i = 0; i < g_prog[t].ops.size(); i++) {
			const Op &op = g_prog[t].ops[i];
			if (op.kind != K_BAR) continue;
			if (!g_barcount.count(op.a)) die("undeclared barrier");
			if (op.a <= last) die("barrier ids not increasing inside a thread");
			last = op.a;
			used[op.a]++;
		}
	}
	for (std::map<int, int>::iterator it = g_barcount.begin(); it != g_barcount.end(); ++it)
		if (used[it->first] != it->second) die("barrier participant count mismatch");
}

// ------------------------------------------------------------------------------------------------ hashing / masking
struct Hash {
	uint64_t a, b;
	Hash() : a(1469598103934665603ULL), b(0x9E3779B97F4A7C15ULL) {}
	void add(const void *p, size_t n)
	{
		const unsigned char *c = (const unsigned char *) p;
		for (size_t i = 0; i < n; i++) {
			a = (a ^ c[i]) * 1099511628211ULL;
			b = (b + c[i] + 1) * 0xD6E8FEB86659FD93ULL;
			b ^= b >> 29;
		}
	}
	void add(const std::string &s) { add(s.data(), s.size()); }
	std::string hex() const
	{
		char buf[40];
		snprintf(buf, sizeof buf, "%016llx%016llx", (unsigned long long) a, (unsigned long long) b);
		return buf;
	}
};

static bool isdig(char c) { return c >= '0' && c <= '9'; }

// "<prefix>.<digits>.<suffix>" with prefix in {phreeqc, dump}, suffix in {out, err, log}  -> "<prefix>.#.<suffix>"
// "selected_<digits>.<digits>.out" -> "selected_<digits>.#.out"
static std::string mask_names(const std::string &s)
{
	std::string o;
	o.reserve(s.size());
	size_t i = 0, n = s.size();
	while (i < n) {
		char c = s[i];
		if (c == 'p' || c == 'd' || c == 's') {
			size_t j = i;
			bool sel = false;
			if (s.compare(i, 8, "phreeqc.") == 0) j = i + 8;
			else if (s.compare(i, 5, "dump.") == 0) j = i + 5;
			else if (s.compare(i, 9, "selected_") == 0) {
				j = i + 9;
				size_t k = j;
				while (k < n && (isdig(s[k]) || (k == j && s[k] == '-'))) k++;
				if (k > j && k < n && s[k] == '.') { j = k + 1; sel = true; } else j = i;
			}
			if (j > i) {
				size_t k = j;
				while (k < n && isdig(s[k])) k++;
				if (k > j && k + 3 < n + 0 && s[k] == '.') {
					std::string suf = s.substr(k + 1, 3);
					if (suf == "out" || (!sel && (suf == "err" || suf == "log"))) {
						o.append(s, i, j - i);
						o += "#.";
						o += suf;
						i = k + 4;
						continue;
					}
				}
			}
		}
		o += c;
		i++;
	}
	return o;
}

static bool all_dashes(const std::string &l)
{
	if (l.empty()) return false;
	for (size_t i = 0; i < l.size(); i++) if (l[i] != '-') return false;
	return true;
}

// banner "End of Run after X Seconds." and the dashed lines around it
static std::string mask_banner(const std::string &s)
{
	if (s.find("End of Run after ") == std::string::npos) return s;
	std::vector<std::string> lines;
	size_t p = 0;
	while (p <= s.size()) {
		size_t q = s.find('\n', p);
		if (q == std::string::npos) { lines.push_back(s.substr(p)); break; }
		lines.push_back(s.substr(p, q - p));
		p = q + 1;
	}
	for (size_t i = 0; i < lines.size(); i++) {
		const std::string &l = lines[i];
		if (l.compare(0, 17, "End of Run after ") == 0 && l.size() >= 9 && l.compare(l.size() - 9, 9, " Seconds.") == 0) {
			lines[i] = "End of Run after # Seconds.";
			if (i > 0 && all_dashes(lines[i - 1])) lines[i - 1] = "---";
			if (i + 1 < lines.size() && all_dashes(lines[i + 1])) lines[i + 1] = "---";
		}
	}
	std::string o;
	for (size_t i = 0; i < lines.size(); i++) {
		o += lines[i];
		if (i + 1 < lines.size()) o += '\n';
	}
	return o;
}

static std::string mask(const char *c)
{
	std::string s(c ? c : "<null>");
	return mask_banner(mask_names(s));
}

// ------------------------------------------------------------------------------------------------ overlap measure
static std::atomic<int> g_inside(0), g_in_run(0), g_in_cd(0), g_in_load(0), g_in_create(0);
static std::atomic<int> g_max_inside(0), g_cd_run(0), g_load_run(0), g_create_create(0), g_run_run(0);
#define RLX std::memory_order_relaxed

enum CallKind { C_OTHER, C_RUN, C_CREATE, C_DESTROY, C_LOAD };

struct Guard {
	CallKind k;
	void probe()
	{
		if ((k == C_CREATE || k == C_DESTROY) && g_in_run.load(RLX) > 0) g_cd_run.fetch_add(1, RLX);
		if (k == C_RUN && g_in_cd.load(RLX) > 0) g_cd_run.fetch_add(1, RLX);
		if (k == C_LOAD && g_in_run.load(RLX) > 0) g_load_run.fetch_add(1, RLX);
		if (k == C_RUN && g_in_load.load(RLX) > 0) g_load_run.fetch_add(1, RLX);
	}
	explicit Guard(CallKind kk) : k(kk)
	{
		if (k == C_CREATE && g_in_create.load(RLX) > 0) g_create_create.fetch_add(1, RLX);
		if (k == C_RUN && g_in_run.load(RLX) > 0) g_run_run.fetch_add(1, RLX);
		probe();
		int v = g_inside.fetch_add(1, RLX) + 1;
		int m = g_max_inside.load(RLX);
		while (v > m && !g_max_inside.compare_exchange_weak(m, v, RLX, RLX)) {}
		if (k == C_RUN) g_in_run.fetch_add(1, RLX);
		if (k == C_CREATE || k == C_DESTROY) g_in_cd.fetch_add(1, RLX);
		if (k == C_CREATE) g_in_create.fetch_add(1, RLX);
		if (k == C_LOAD) g_in_load.fetch_add(1, RLX);
	}
	~Guard()
	{
		if (k == C_RUN) g_in_run.fetch_sub(1, RLX);
		if (k == C_CREATE || k == C_DESTROY) g_in_cd.fetch_sub(1, RLX);
		if (k == C_CREATE) g_in_create.fetch_sub(1, RLX);
		if (k == C_LOAD) g_in_load.fetch_sub(1, RLX);
		g_inside.fetch_sub(1, RLX);
		probe();
	}
};

// ------------------------------------------------------------------------------------------------ one instance, C or C++ API
struct Inst {
	bool alive, cpp;
	int id;
	IPhreeqc *p;
	int mask;
	Inst() : alive(false), cpp(false), id(-1), p(0), mask(0) {}
};

#define CALL(kind, cexpr, cppexpr) ([&]() { Guard g_(kind); return I.cpp ? (cppexpr) : (cexpr); }())
#define CALLV(kind, cexpr, cppexpr) do { Guard g_(kind); if (I.cpp) { cppexpr; } else { cexpr; } } while (0)

static std::string S(const char *c) { return std::string(c ? c : "<null>"); }

struct Ctx {
	int iter, thread;
	std::string log;     // result lines of this thread
	std::vector<std::pair<std::string, std::string> > full;   // (file name, content) when --full
	Inst slots[64];
};

static std::string lenhash(const std::string &s)
{
	Hash h;
	h.add(s);
	char b[32];
	snprintf(b, sizeof b, "%zu:", s.size());
	return std::string(b) + h.hex();
}

static void keep(Ctx &c, size_t opidx, const char *chan, const std::string &content)
{
	if (g_full.empty()) return;
	char b[128];
	snprintf(b, sizeof b, "i%d.t%d.o%zu.%s", c.iter, c.thread, opidx, chan);
	c.full.push_back(std::make_pair(std::string(b), content));
}

static std::string file_obs(const std::string &name, bool on, std::string *content)
{
	if (!on) return "-";
	std::string t;
	if (!slurp(name, t)) return "missing";
	std::string m = mask(t.c_str());
	if (content) *content = m;
	return lenhash(m);
}

static std::string expect_name(const char *prefix, int id, const char *suffix)
{
	char b[96];
	snprintf(b, sizeof b, "%s.%d.%s", prefix, id, suffix);
	return b;
}

static void do_read(Ctx &c, size_t opidx, Inst &I, std::string &o)
{
	char b[256];
	int id = I.id;
	// names
	std::string fo = S(CALL(C_OTHER, GetOutputFileName(id), I.p->GetOutputFileName()));
	std::string fl = S(CALL(C_OTHER, GetLogFileName(id), I.p->GetLogFileName()));
	std::string fe = S(CALL(C_OTHER, GetErrorFileName(id), I.p->GetErrorFileName()));
	std::string fd = S(CALL(C_OTHER, GetDumpFileName(id), I.p->GetDumpFileName()));
	int okn = (fo == expect_name("phreeqc", id, "out")) + 2 * (fl == expect_name("phreeqc", id, "log")) +
	          4 * (fe == expect_name("phreeqc", id, "err")) + 8 * (fd == expect_name("dump", id, "out"));
	snprintf(b, sizeof b, " names=%d", okn);
	o += b;
	// switches as read back
	int sw = 0;
	sw |= (CALL(C_OTHER, GetOutputStringOn(id), (int) I.p->GetOutputStringOn()) ? 1 : 0) << 0;
	sw |= (CALL(C_OTHER, GetLogStringOn(id), (int) I.p->GetLogStringOn()) ? 1 : 0) << 1;
	sw |= (CALL(C_OTHER, GetDumpStringOn(id), (int) I.p->GetDumpStringOn()) ? 1 : 0) << 2;
	sw |= (CALL(C_OTHER, GetErrorStringOn(id), (int) I.p->GetErrorStringOn()) ? 1 : 0) << 3;
	sw |= (CALL(C_OTHER, GetOutputFileOn(id), (int) I.p->GetOutputFileOn()) ? 1 : 0) << 5;
	sw |= (CALL(C_OTHER, GetLogFileOn(id), (int) I.p->GetLogFileOn()) ? 1 : 0) << 6;
	sw |= (CALL(C_OTHER, GetErrorFileOn(id), (int) I.p->GetErrorFileOn()) ? 1 : 0) << 7;
	sw |= (CALL(C_OTHER, GetDumpFileOn(id), (int) I.p->GetDumpFileOn()) ? 1 : 0) << 8;
	snprintf(b, sizeof b, " sw=%x", sw);
	o += b;
	// strings
	struct { const char *name; std::string text; int lines; } ch[5];
	ch[0].name = "out";  ch[0].text = mask(CALL(C_OTHER, GetOutputString(id), I.p->GetOutputString()));
	ch[0].lines = CALL(C_OTHER, GetOutputStringLineCount(id), I.p->GetOutputStringLineCount());
	ch[1].name = "log";  ch[1].text = mask(CALL(C_OTHER, GetLogString(id), I.p->GetLogString()));
	ch[1].lines = CALL(C_OTHER, GetLogStringLineCount(id), I.p->GetLogStringLineCount());
	ch[2].name = "dump"; ch[2].text = mask(CALL(C_OTHER, GetDumpString(id), I.p->GetDumpString()));
	ch[2].lines = CALL(C_OTHER, GetDumpStringLineCount(id), I.p->GetDumpStringLineCount());
	ch[3].name = "err";  ch[3].text = mask(CALL(C_OTHER, GetErrorString(id), I.p->GetErrorString()));
	ch[3].lines = CALL(C_OTHER, GetErrorStringLineCount(id), I.p->GetErrorStringLineCount());
	ch[4].name = "warn"; ch[4].text = mask(CALL(C_OTHER, GetWarningString(id), I.p->GetWarningString()));
	ch[4].lines = CALL(C_OTHER, GetWarningStringLineCount(id), I.p->GetWarningStringLineCount());
	for (int k = 0; k < 5; k++) {
		snprintf(b, sizeof b, " %s=%d:", ch[k].name, ch[k].lines);
		o += b;
		o += lenhash(ch[k].text);
		keep(c, opidx, ch[k].name, ch[k].text);
	}
	// a sample of the line accessors (first, middle, last output line)
	{
		Hash h;
		int n = ch[0].lines;
		int pick[3] = {0, n / 2, n - 1};
		for (int k = 0; k < 3; k++) {
			std::string l = mask(CALL(C_OTHER, GetOutputStringLine(id, pick[k]), I.p->GetOutputStringLine(pick[k])));
			h.add(l);
			h.add("\n", 1);
		}
		o += " outl=" + h.hex();
	}
	// components
	{
		int n = CALL(C_OTHER, GetComponentCount(id), (int) I.p->GetComponentCount());
		std::string all;
		for (int k = 0; k < n; k++) {
			all += S(CALL(C_OTHER, GetComponent(id, k), I.p->GetComponent(k)));
			all += ",";
		}
		snprintf(b, sizeof b, " comp=%d:", n);
		o += b;
		o += lenhash(all);
		keep(c, opidx, "comp", all);
	}
	// files of the common streams
	{
		std::string t;
		const char *nm[4] = {"fout", "flog", "ferr", "fdump"};
		const std::string *fn[4] = {&fo, &fl, &fe, &fd};
		int bit[4] = {5, 6, 7, 8};
		for (int k = 0; k < 4; k++) {
			t.clear();
			o += std::string(" ") + nm[k] + "=" + file_obs(*fn[k], (I.mask >> bit[k]) & 1, &t);
			if ((I.mask >> bit[k]) & 1) keep(c, opidx, nm[k], t);
		}
	}
	// selected output: every defined user number
	int cur = CALL(C_OTHER, GetCurrentSelectedOutputUserNumber(id), I.p->GetCurrentSelectedOutputUserNumber());
	int nso = CALL(C_OTHER, GetSelectedOutputCount(id), I.p->GetSelectedOutputCount());
	snprintf(b, sizeof b, " cur=%d so=%d", cur, nso);
	o += b;
	std::vector<int> nums;
	for (int k = 0; k < nso; k++) nums.push_back(CALL(C_OTHER, GetNthSelectedOutputUserNumber(id, k), I.p->GetNthSelectedOutputUserNumber(k)));
	for (size_t k = 0; k < nums.size(); k++) {
		int n = nums[k];
		int rc = CALL(C_OTHER, (int) SetCurrentSelectedOutputUserNumber(id, n), (int) I.p->SetCurrentSelectedOutputUserNumber(n));
		int rows = CALL(C_OTHER, GetSelectedOutputRowCount(id), I.p->GetSelectedOutputRowCount());
		int cols = CALL(C_OTHER, GetSelectedOutputColumnCount(id), I.p->GetSelectedOutputColumnCount());
		Hash h;
		std::string txt;
		for (int r = 0; r < rows; r++)
			for (int cc = 0; cc < cols; cc++) {
				VAR v;
				VarInit(&v);
				int vr = CALL(C_OTHER, (int) GetSelectedOutputValue(id, r, cc, &v), (int) I.p->GetSelectedOutputValue(r, cc, &v));
				char cell[64];
				std::string sval;
				if (v.type == TT_DOUBLE) {
					uint64_t u;
					memcpy(&u, &v.dVal, 8);
					snprintf(cell, sizeof cell, "%d %d %d D %016llx", r, cc, vr, (unsigned long long) u);
				} else if (v.type == TT_LONG) snprintf(cell, sizeof cell, "%d %d %d L %ld", r, cc, vr, v.lVal);
				else if (v.type == TT_STRING) { snprintf(cell, sizeof cell, "%d %d %d S ", r, cc, vr); sval = mask(v.sVal); }
				else if (v.type == TT_ERROR) snprintf(cell, sizeof cell, "%d %d %d E %d", r, cc, vr, (int) v.vresult);
				else snprintf(cell, sizeof cell, "%d %d %d - ", r, cc, vr);
				VarClear(&v);
				h.add(cell, strlen(cell));
				h.add(sval);
				h.add("\n", 1);
				if (!g_full.empty()) { txt += cell; txt += sval; txt += "\n"; }
			}
		snprintf(b, sizeof b, " t%d=%d:%dx%d:", n, rc, rows, cols);
		o += b;
		o += h.hex();
		snprintf(b, sizeof b, "t%d", n);
		keep(c, opidx, b, txt);
		std::string ss = mask(CALL(C_OTHER, GetSelectedOutputString(id), I.p->GetSelectedOutputString()));
		int sl = CALL(C_OTHER, GetSelectedOutputStringLineCount(id), I.p->GetSelectedOutputStringLineCount());
		snprintf(b, sizeof b, " ss%d=%d:", n, sl);
		o += b;
		o += lenhash(ss);
		snprintf(b, sizeof b, "ss%d", n);
		keep(c, opidx, b, ss);
		std::string sfn = S(CALL(C_OTHER, GetSelectedOutputFileName(id), I.p->GetSelectedOutputFileName()));
		int son = CALL(C_OTHER, GetSelectedOutputFileOn(id), (int) I.p->GetSelectedOutputFileOn()) ? 1 : 0;
		char en[96];
		snprintf(en, sizeof en, "selected_%d.%d.out", n, id);
		std::string t;
		snprintf(b, sizeof b, " sf%d=%d:%d:", n, (int) (sfn == en), son);
		o += b;
		o += file_obs(sfn, son != 0, &t);
		snprintf(b, sizeof b, "sf%d", n);
		if (son) keep(c, opidx, b, t);
	}
	CALL(C_OTHER, (int) SetCurrentSelectedOutputUserNumber(id, cur), (int) I.p->SetCurrentSelectedOutputUserNumber(cur));
}

static void remove_files(int id)
{
	const char *sfx[3] = {"out", "err", "log"};
	for (int k = 0; k < 3; k++) unlink(expect_name("phreeqc", id, sfx[k]).c_str());
	unlink(expect_name("dump", id, "out").c_str());
	for (int n = 1; n <= 3; n++) {
		char b[96];
		snprintf(b, sizeof b, "selected_%d.%d.out", n, id);
		unlink(b);
	}
}

static void run_program(Ctx &c, const Program &P)
{
	char b[256];
	int inst_slot = -1;      // --inst: slot of the selected instance while it is alive
	for (size_t i = 0; i < P.ops.size(); i++) {
		const Op &op = P.ops[i];
		if (op.kind == K_BAR) {
			if (g_conc) pthread_barrier_wait(g_bar[op.a]);
			continue;   // not an observation
		}
		if (g_inst_op >= 0) {
			if ((int) i == g_inst_op && op.kind == K_CREATE) inst_slot = op.slot;
			else if (inst_slot < 0 || op.slot != inst_slot) continue;
			if (op.kind == K_CREATE && (int) i != g_inst_op) { inst_slot = -1; continue; }
		}
		Inst &I = c.slots[op.slot];
		std::string o;
		snprintf(b, sizeof b, "R %d %d %zu %s %d", c.iter, c.thread, i, KNAME[op.kind], op.slot);
		o = b;
		if (op.kind == K_CREATE) {
			if (I.alive) { o += " skipped=alive"; }
			else {
				I = Inst();
				I.cpp = op.a != 0;
				if (I.cpp) {
					{ Guard g(C_CREATE); I.p = new IPhreeqc; }
					{ Guard g(C_OTHER); I.id = I.p->GetId(); }
				} else {
					Guard g(C_CREATE);
					I.id = CreateIPhreeqc();
				}
				I.alive = I.id >= 0;
				snprintf(b, sizeof b, " api=%s ok=%d id=%d", I.cpp ? "cpp" : "c", (int) I.alive, I.id);
				o += b;
			}
		} else if (!I.alive) {
			o += " skipped=dead";
		} else if (op.kind == K_LOAD) {
			int id = I.id;
			int rc;
			if (op.a) rc = CALL(C_LOAD, LoadDatabaseString(id, op.text.c_str()), I.p->LoadDatabaseString(op.text.c_str()));
			else rc = CALL(C_LOAD, LoadDatabase(id, op.path.c_str()), I.p->LoadDatabase(op.path.c_str()));
			snprintf(b, sizeof b, " rc=%d", rc);
			o += b;
		} else if (op.kind == K_SET) {
			int id = I.id, m = op.a;
			I.mask = m;
			int acc = 0;
			CALLV(C_OTHER, acc += SetOutputStringOn(id, (m >> 0) & 1), I.p->SetOutputStringOn((m >> 0) & 1));
			CALLV(C_OTHER, acc += SetLogStringOn(id, (m >> 1) & 1), I.p->SetLogStringOn((m >> 1) & 1));
			CALLV(C_OTHER, acc += SetDumpStringOn(id, (m >> 2) & 1), I.p->SetDumpStringOn((m >> 2) & 1));
			CALLV(C_OTHER, acc += SetErrorStringOn(id, (m >> 3) & 1), I.p->SetErrorStringOn((m >> 3) & 1));
			CALLV(C_OTHER, acc += SetOutputFileOn(id, (m >> 5) & 1), I.p->SetOutputFileOn((m >> 5) & 1));
			CALLV(C_OTHER, acc += SetLogFileOn(id, (m >> 6) & 1), I.p->SetLogFileOn((m >> 6) & 1));
			CALLV(C_OTHER, acc += SetErrorFileOn(id, (m >> 7) & 1), I.p->SetErrorFileOn((m >> 7) & 1));
			CALLV(C_OTHER, acc += SetDumpFileOn(id, (m >> 8) & 1), I.p->SetDumpFileOn((m >> 8) & 1));
			for (int n = 3; n >= 1; n--) {   // ends with user number 1 current
				CALLV(C_OTHER, acc += SetCurrentSelectedOutputUserNumber(id, n), acc += I.p->SetCurrentSelectedOutputUserNumber(n));
				CALLV(C_OTHER, acc += SetSelectedOutputStringOn(id, (m >> 4) & 1), I.p->SetSelectedOutputStringOn((m >> 4) & 1));
				CALLV(C_OTHER, acc += SetSelectedOutputFileOn(id, (m >> 9) & 1), I.p->SetSelectedOutputFileOn((m >> 9) & 1));
			}
			snprintf(b, sizeof b, " mask=%x rc=%d", m, acc);
			o += b;
		} else if (op.kind == K_RUN) {
			int id = I.id;
			int rc;
			if (op.a == 0) rc = CALL(C_RUN, RunString(id, op.text.c_str()), I.p->RunString(op.text.c_str()));
			else if (op.a == 1) rc = CALL(C_RUN, RunFile(id, op.path.c_str()), I.p->RunFile(op.path.c_str()));
			else {
				size_t p = 0;
				int acc = 0;
				while (p < op.text.size()) {
					size_t q = op.text.find('\n', p);
					if (q == std::string::npos) q = op.text.size();
					std::string l = op.text.substr(p, q - p);
					acc += CALL(C_OTHER, (int) AccumulateLine(id, l.c_str()), (int) I.p->AccumulateLine(l.c_str()));
					p = q + 1;
				}
				rc = CALL(C_RUN, RunAccumulated(id), I.p->RunAccumulated());
				snprintf(b, sizeof b, " acc=%d", acc);
				o += b;
			}
			snprintf(b, sizeof b, " rc=%d", rc);
			o += b;
		} else if (op.kind == K_READ) {
			do_read(c, i, I, o);
		} else if (op.kind == K_DESTROY) {
			int rc = 0;
			if (I.cpp) { Guard g(C_DESTROY); delete I.p; }
			else { Guard g(C_DESTROY); rc = DestroyIPhreeqc(I.id); }
			remove_files(I.id);
			I.alive = false;
			snprintf(b, sizeof b, " rc=%d", rc);
			o += b;
			if (g_inst_op >= 0) inst_slot = -1;
		}
		c.log += o;
		c.log += "\n";
	}
	// leftovers (the generator always destroys; belt and braces so that iterations do not accumulate instances)
	for (int s = 0; s < 64; s++) {
		Inst &I = c.slots[s];
		if (!I.alive) continue;
		if (I.cpp) delete I.p; else DestroyIPhreeqc(I.id);
		remove_files(I.id);
		I.alive = false;
	}
}

static void thread_main(Ctx *c, pthread_barrier_t *start)
{
	pthread_barrier_wait(start);
	run_program(*c, g_prog[c->thread]);
}

int main(int argc, char **argv)
{
	std::string out, sched;
	int iters = 1;
	for (int i = 1; i < argc; i++) {
		std::string a = argv[i];
		if (a == "--mode" && i + 1 < argc) g_conc = std::string(argv[++i]) != "seq";
		else if (a == "--iters" && i + 1 < argc) iters = atoi(argv[++i]);
		else if (a == "--out" && i + 1 < argc) out = argv[++i];
		else if (a == "--full" && i + 1 < argc) g_full = argv[++i];
		else if (a == "--reverse") g_reverse = true;
		else if (a == "--only" && i + 1 < argc) g_only = atoi(argv[++i]);
		else if (a == "--inst" && i + 2 < argc) { g_only = atoi(argv[++i]); g_inst_op = atoi(argv[++i]); }
		else sched = a;
	}
	if (out.empty() || sched.empty() || iters < 1) die("usage: mt_harness [--mode conc|seq] [--iters K] [--full DIR] --out RESULT SCHEDULE");
	parse(sched);
	if (!g_full.empty()) mkdir(g_full.c_str(), 0777);
	std::string result;
	char b[256];
	snprintf(b, sizeof b, "H mode=%s threads=%d iters=%d\n", g_conc ? "conc" : "seq", g_nthreads, iters);
	result += b;
	for (int it = 0; it < iters; it++) {
		g_max_inside.store(0, RLX); g_cd_run.store(0, RLX); g_load_run.store(0, RLX);
		g_create_create.store(0, RLX); g_run_run.store(0, RLX);
		std::vector<Ctx *> ctx(g_nthreads);
		for (int t = 0; t < g_nthreads; t++) {
			ctx[t] = new Ctx;
			ctx[t]->iter = it;
			ctx[t]->thread = t;
		}
		std::chrono::steady_clock::time_point t0 = std::chrono::steady_clock::now();
		if (g_conc) {
			for (std::map<int, int>::iterator bi = g_barcount.begin(); bi != g_barcount.end(); ++bi) {
				pthread_barrier_t *pb = new pthread_barrier_t;
				pthread_barrier_init(pb, 0, bi->second);
				g_bar[bi->first] = pb;
			}
			pthread_barrier_t start;
			pthread_barrier_init(&start, 0, g_nthreads);
			std::vector<std::thread> th;
			for (int t = 0; t < g_nthreads; t++) th.push_back(std::thread(thread_main, ctx[t], &start));
			for (int t = 0; t < g_nthreads; t++) th[t].join();
			pthread_barrier_destroy(&start);
			for (std::map<int, pthread_barrier_t *>::iterator bi = g_bar.begin(); bi != g_bar.end(); ++bi) {
				pthread_barrier_destroy(bi->second);
				delete bi->second;
			}
			g_bar.clear();
		} else {
			for (int k = 0; k < g_nthreads; k++) {
				int t = g_reverse ? g_nthreads - 1 - k : k;
				if (g_only >= 0 && t != g_only) continue;
				run_program(*ctx[t], g_prog[t]);
			}
		}
		double ms = std::chrono::duration<double, std::milli>(std::chrono::steady_clock::now() - t0).count();
		for (int t = 0; t < g_nthreads; t++) {
			result += ctx[t]->log;
			for (size_t k = 0; k < ctx[t]->full.size(); k++) {
				std::ofstream f((g_full + "/" + ctx[t]->full[k].first).c_str(), std::ios::binary);
				f << ctx[t]->full[k].second;
			}
			delete ctx[t];
		}
		snprintf(b, sizeof b, "S %d max_inside=%d cd_run=%d load_run=%d create_create=%d run_run=%d wall_ms=%.1f\n", it,
		         g_max_inside.load(RLX), g_cd_run.load(RLX), g_load_run.load(RLX), g_create_create.load(RLX), g_run_run.load(RLX), ms);
		result += b;
	}
	result += "E ok\n";
	std::string tmp = out + ".tmp";
	{
		std::ofstream f(tmp.c_str(), std::ios::binary);
		f << result;
	}
	rename(tmp.c_str(), out.c_str());
	return 0;
}
