// extern "C" shim around the C++ IPhreeqc class so that Python (ctypes) can drive one and the
// same object through the C++ methods, the id-based C API (GetId) and the *F glue functions.
// Lives in /verif; compiled together with /repo/src into build/<variant>/libiphreeqc_<variant>.so
#include <cstring>
#include <cstdlib>
#include <string>
#include <vector>
#include <sstream>
#include <map>
#include "IPhreeqc.hpp"
#include "IPhreeqc.h"
#include "Utils.h"
#include "Phreeqc.h"
#include "NameDouble.h"
#include "StorageBin.h"
#include "SSassemblage.h"
#include "Solution.h"
#include "Exchange.h"
#include "GasPhase.h"
#include "cxxKinetics.h"
#include "PPassemblage.h"
#include "SS.h"
#include "Surface.h"
#include "cxxMix.h"
#include "Reaction.h"
#include "Temperature.h"
#include "Pressure.h"
#include "Use.h"
#include <cfloat>
#include "Serializer.h"
#include "Dictionary.h"

class VIPhreeqc : public IPhreeqc {
public:
	Phreeqc *P() { return this->PhreeqcPtr; }
};

#define EQ(a) (strcmp(name, a) == 0)

extern "C" {

void *shim_new(void) {
	try { return new VIPhreeqc(); } catch (...) { return 0; }
}
void shim_delete(void *p) { delete (VIPhreeqc *)p; }
int shim_id(void *p) { return ((IPhreeqc *)p)->GetId(); }

// returns INT_MIN+1 for unknown name
int shimcpp_geti(void *vp, const char *name, int n) {
	IPhreeqc *p = (IPhreeqc *)vp;
	if (EQ("GetComponentCount")) return (int)p->GetComponentCount();
	if (EQ("GetCurrentSelectedOutputUserNumber")) return p->GetCurrentSelectedOutputUserNumber();
	if (EQ("GetDumpFileOn")) return p->GetDumpFileOn();
	if (EQ("GetDumpStringLineCount")) return p->GetDumpStringLineCount();
	if (EQ("GetDumpStringOn")) return p->GetDumpStringOn();
	if (EQ("GetErrorFileOn")) return p->GetErrorFileOn();
	if (EQ("GetErrorOn")) return p->GetErrorOn();
	if (EQ("GetErrorStringLineCount")) return p->GetErrorStringLineCount();
	if (EQ("GetErrorStringOn")) return p->GetErrorStringOn();
	if (EQ("GetLogFileOn")) return p->GetLogFileOn();
	if (EQ("GetLogStringLineCount")) return p->GetLogStringLineCount();
	if (EQ("GetLogStringOn")) return p->GetLogStringOn();
	if (EQ("GetNthSelectedOutputUserNumber")) return p->GetNthSelectedOutputUserNumber(n);
	if (EQ("GetOutputFileOn")) return p->GetOutputFileOn();
	if (EQ("GetOutputStringLineCount")) return p->GetOutputStringLineCount();
	if (EQ("GetOutputStringOn")) return p->GetOutputStringOn();
	if (EQ("GetSelectedOutputColumnCount")) return p->GetSelectedOutputColumnCount();
	if (EQ("GetSelectedOutputCount")) return p->GetSelectedOutputCount();
	if (EQ("GetSelectedOutputFileOn")) return p->GetSelectedOutputFileOn();
	if (EQ("GetSelectedOutputRowCount")) return p->GetSelectedOutputRowCount();
	if (EQ("GetSelectedOutputStringLineCount")) return p->GetSelectedOutputStringLineCount();
	if (EQ("GetSelectedOutputStringOn")) return p->GetSelectedOutputStringOn();
	if (EQ("GetWarningStringLineCount")) return p->GetWarningStringLineCount();
	if (EQ("GetId")) return p->GetId();
	return -2147483647;
}

const char *shimcpp_gets(void *vp, const char *name, int n) {
	IPhreeqc *p = (IPhreeqc *)vp;
	if (EQ("GetComponent")) return p->GetComponent(n);
	if (EQ("GetDumpFileName")) return p->GetDumpFileName();
	if (EQ("GetDumpString")) return p->GetDumpString();
	if (EQ("GetDumpStringLine")) return p->GetDumpStringLine(n);
	if (EQ("GetErrorFileName")) return p->GetErrorFileName();
	if (EQ("GetErrorString")) return p->GetErrorString();
	if (EQ("GetErrorStringLine")) return p->GetErrorStringLine(n);
	if (EQ("GetLogFileName")) return p->GetLogFileName();
	if (EQ("GetLogString")) return p->GetLogString();
	if (EQ("GetLogStringLine")) return p->GetLogStringLine(n);
	if (EQ("GetOutputFileName")) return p->GetOutputFileName();
	if (EQ("GetOutputString")) return p->GetOutputString();
	if (EQ("GetOutputStringLine")) return p->GetOutputStringLine(n);
	if (EQ("GetSelectedOutputFileName")) return p->GetSelectedOutputFileName();
	if (EQ("GetSelectedOutputString")) return p->GetSelectedOutputString();
	if (EQ("GetSelectedOutputStringLine")) return p->GetSelectedOutputStringLine(n);
	if (EQ("GetWarningString")) return p->GetWarningString();
	if (EQ("GetWarningStringLine")) return p->GetWarningStringLine(n);
	if (EQ("GetVersionString")) return IPhreeqc::GetVersionString();
	return "<<unknown getter>>";
}

int shimcpp_seti(void *vp, const char *name, int v) {
	IPhreeqc *p = (IPhreeqc *)vp;
	if (EQ("SetCurrentSelectedOutputUserNumber")) return (int)p->SetCurrentSelectedOutputUserNumber(v);
	if (EQ("SetDumpFileOn")) { p->SetDumpFileOn(v != 0); return 0; }
	if (EQ("SetDumpStringOn")) { p->SetDumpStringOn(v != 0); return 0; }
	if (EQ("SetErrorFileOn")) { p->SetErrorFileOn(v != 0); return 0; }
	if (EQ("SetErrorOn")) { p->SetErrorOn(v != 0); return 0; }
	if (EQ("SetErrorStringOn")) { p->SetErrorStringOn(v != 0); return 0; }
	if (EQ("SetLogFileOn")) { p->SetLogFileOn(v != 0); return 0; }
	if (EQ("SetLogStringOn")) { p->SetLogStringOn(v != 0); return 0; }
	if (EQ("SetOutputFileOn")) { p->SetOutputFileOn(v != 0); return 0; }
	if (EQ("SetOutputStringOn")) { p->SetOutputStringOn(v != 0); return 0; }
	if (EQ("SetSelectedOutputFileOn")) { p->SetSelectedOutputFileOn(v != 0); return 0; }
	if (EQ("SetSelectedOutputStringOn")) { p->SetSelectedOutputStringOn(v != 0); return 0; }
	return -2147483647;
}

int shimcpp_sets(void *vp, const char *name, const char *s) {
	IPhreeqc *p = (IPhreeqc *)vp;
	if (EQ("SetDumpFileName")) { p->SetDumpFileName(s); return 0; }
	if (EQ("SetErrorFileName")) { p->SetErrorFileName(s); return 0; }
	if (EQ("SetLogFileName")) { p->SetLogFileName(s); return 0; }
	if (EQ("SetOutputFileName")) { p->SetOutputFileName(s); return 0; }
	if (EQ("SetSelectedOutputFileName")) { p->SetSelectedOutputFileName(s); return 0; }
	if (EQ("AccumulateLine")) return (int)p->AccumulateLine(s);
	if (EQ("AddError")) return (int)p->AddError(s);
	if (EQ("AddWarning")) return (int)p->AddWarning(s);
	if (EQ("LoadDatabase")) return p->LoadDatabase(s);
	if (EQ("LoadDatabaseString")) return p->LoadDatabaseString(s);
	if (EQ("RunFile")) return p->RunFile(s);
	if (EQ("RunString")) return p->RunString(s);
	if (EQ("RunAccumulated")) return p->RunAccumulated();
	if (EQ("ClearAccumulatedLines")) { p->ClearAccumulatedLines(); return 0; }
	return -2147483647;
}

const char *shimcpp_accumulated(void *vp) {
	static thread_local std::string s;
	s = ((IPhreeqc *)vp)->GetAccumulatedLines();
	return s.c_str();
}

int shimcpp_value(void *vp, int row, int col, VAR *v) {
	return (int)((IPhreeqc *)vp)->GetSelectedOutputValue(row, col, v);
}

// ---------------------------------------------------------------------------------------
// Bulk read of the current selected-output table of instance `id` through the C function
// GetSelectedOutputValue.  Buffers are thread-local and valid until the next call.
struct TableBuf {
	std::vector<signed char> types;
	std::vector<double> d;
	std::vector<long long> l;
	std::string blob; // strings separated by '\0', one entry per cell (empty for non-strings)
};
static thread_local TableBuf tb;

int shim_table(int id, int *rows, int *cols, const signed char **types, const double **d,
               const long long **l, const char **blob, long long *bloblen) {
	int r = GetSelectedOutputRowCount(id);
	int c = GetSelectedOutputColumnCount(id);
	*rows = r; *cols = c;
	tb.types.clear(); tb.d.clear(); tb.l.clear(); tb.blob.clear();
	if (r < 0 || c < 0) return -1;
	tb.types.reserve((size_t)r * c); tb.d.reserve((size_t)r * c); tb.l.reserve((size_t)r * c);
	VAR v; VarInit(&v);
	for (int i = 0; i < r; ++i) {
		for (int j = 0; j < c; ++j) {
			VarClear(&v);
			int rc = (int)GetSelectedOutputValue(id, i, j, &v);
			signed char t = (signed char)v.type;
			double dv = 0; long long lv = 0;
			if (rc != 0) { t = (signed char)(-10 + rc); }
			else if (v.type == TT_DOUBLE) dv = v.dVal;
			else if (v.type == TT_LONG) lv = v.lVal;
			else if (v.type == TT_ERROR) lv = v.vresult;
			if (rc == 0 && v.type == TT_STRING && v.sVal) tb.blob.append(v.sVal);
			tb.blob.push_back('\0');
			tb.types.push_back(t); tb.d.push_back(dv); tb.l.push_back(lv);
		}
	}
	VarClear(&v);
	*types = tb.types.data(); *d = tb.d.data(); *l = tb.l.data();
	*blob = tb.blob.data(); *bloblen = (long long)tb.blob.size();
	return 0;
}

// ---------------------------------------------------------------------------------------
// C10 in-memory legs.  Each returns a malloc'ed C string (free with shim_free).
static char *dupstr(const std::string &s) {
	char *r = (char *)malloc(s.size() + 1);
	memcpy(r, s.c_str(), s.size() + 1);
	return r;
}
void shim_free(void *p) { free(p); }

// raw dump of everything in the instance (independent of DUMP keyword settings)
char *shim_dump_raw(void *vp) {
	VIPhreeqc *p = (VIPhreeqc *)vp;
	cxxStorageBin sb(p->P()->Get_phrq_io());
	p->P()->phreeqc2cxxStorageBin(sb);
	std::ostringstream os;
	os.precision(DBL_DIG - 1);
	sb.dump_raw(os, 0);
	return dupstr(os.str());
}

// storage-bin round trip: copy everything out, then back in (overwriting), return dump after
char *shim_roundtrip_storagebin(void *vp) {
	VIPhreeqc *p = (VIPhreeqc *)vp;
	cxxStorageBin sb(p->P()->Get_phrq_io());
	p->P()->phreeqc2cxxStorageBin(sb);
	cxxStorageBin sb2(sb);
	p->P()->cxxStorageBin2phreeqc(sb2);
	return shim_dump_raw(vp);
}

// serialise cells [start,end] of src and deserialise them into dst (another instance that has
// loaded the same database); returns dst's raw dump.  0 on failure.
char *shim_serialize_into(void *vsrc, void *vdst, int start, int end) {
	VIPhreeqc *s = (VIPhreeqc *)vsrc;
	VIPhreeqc *d = (VIPhreeqc *)vdst;
	Serializer ser(s->P()->Get_phrq_io());
	if (!ser.Serialize(*s->P(), start, end, true, true)) return 0;
	std::vector<int> ints = ser.GetInts();
	std::vector<double> dbls = ser.GetDoubles();
	// transport the dictionary the way a caller would: as words
	std::string words = ser.GetDictionary().GetDictionaryOss().str();
	Dictionary dict2(words);
	Serializer de(d->P()->Get_phrq_io());
	if (!de.Deserialize(*d->P(), dict2, ints, dbls)) return 0;
	return shim_dump_raw(vdst);
}

// copy-construct the engine (Phreeqc copy constructor -> InternalCopy) and dump the copy
char *shim_copy_dump(void *vp) {
	VIPhreeqc *p = (VIPhreeqc *)vp;
	Phreeqc *c = new Phreeqc(*p->P());
	cxxStorageBin sb(c->Get_phrq_io());
	c->phreeqc2cxxStorageBin(sb);
	std::ostringstream os;
	os.precision(DBL_DIG - 1);
	sb.dump_raw(os, 0);
	delete c;
	return dupstr(os.str());
}


// ---------------------------------------------------------------------------------------
// C05/C13: compare the three bindings cell by cell on the current table of C++ object vp,
// including a ring of out-of-range indices.  Returns the number of (row,col) pairs compared,
// or -1 with a description of the first disagreement in msg.
extern "C" IPQ_RESULT GetSelectedOutputValueF(int *id, int *row, int *col, int *vtype, double *dvalue, char *svalue, int *svalue_length);
extern "C" int GetSelectedOutputRowCountF(int *id);
extern "C" int GetSelectedOutputColumnCountF(int *id);

static bool same_var(const VAR &a, const VAR &b) {
	if (a.type != b.type) return false;
	switch (a.type) {
	case TT_EMPTY: return true;
	case TT_ERROR: return a.vresult == b.vresult;
	case TT_LONG: return a.lVal == b.lVal;
	case TT_DOUBLE: return memcmp(&a.dVal, &b.dVal, sizeof(double)) == 0;
	case TT_STRING: return a.sVal && b.sVal && strcmp(a.sVal, b.sVal) == 0;
	}
	return false;
}

int shim_cmp_bindings(void *vp, char *msg, int msglen) {
	IPhreeqc *p = (IPhreeqc *)vp;
	int id = p->GetId();
	int rows = GetSelectedOutputRowCount(id), cols = GetSelectedOutputColumnCount(id);
	int count = 0;
#define FAIL(...) do { snprintf(msg, msglen, __VA_ARGS__); return -1; } while (0)
	if (rows != p->GetSelectedOutputRowCount()) FAIL("RowCount C %d != C++ %d", rows, p->GetSelectedOutputRowCount());
	if (cols != p->GetSelectedOutputColumnCount()) FAIL("ColumnCount C %d != C++ %d", cols, p->GetSelectedOutputColumnCount());
	int rf = GetSelectedOutputRowCountF(&id), cf = GetSelectedOutputColumnCountF(&id);
	if (rf != (rows > 0 ? rows - 1 : rows)) FAIL("RowCountF %d vs RowCount %d", rf, rows);
	if (cf != cols) FAIL("ColumnCountF %d vs ColumnCount %d", cf, cols);
	std::vector<int> rr, cc;
	for (int i = -2; i <= rows + 1; ++i) rr.push_back(i);
	rr.push_back(rows + 7); rr.push_back(2147483647); rr.push_back(-2147483647 - 1);
	for (int j = -2; j <= cols + 1; ++j) cc.push_back(j);
	cc.push_back(cols + 7); cc.push_back(2147483647); cc.push_back(-2147483647 - 1);
	for (size_t a = 0; a < rr.size(); ++a) for (size_t b = 0; b < cc.size(); ++b) {
		int row = rr[a], col = cc[b];
		bool rin = row >= 0 && row < rows, cin = col >= 0 && col < cols;
		VAR v1, v2; VarInit(&v1); VarInit(&v2);
		int r1 = (int)GetSelectedOutputValue(id, row, col, &v1);
		int r2 = (int)p->GetSelectedOutputValue(row, col, &v2);
		if (r1 != r2 || !same_var(v1, v2)) FAIL("C vs C++ differ at (%d,%d): rc %d/%d type %d/%d", row, col, r1, r2, v1.type, v2.type);
		int expect = !rin ? VR_INVALIDROW : (!cin ? VR_INVALIDCOL : VR_OK);
		if (rows == 0 && cols == 0) expect = r1; // no table content: code not specified beyond != OK
		if (r1 != expect) FAIL("(%d,%d) of %dx%d table returned %d, expected %d", row, col, rows, cols, r1, expect);
		if (r1 != VR_OK) {
			if (v1.type != TT_ERROR || (int)v1.vresult != r1) FAIL("(%d,%d): rc %d but VAR type %d vresult %d", row, col, r1, v1.type, (int)v1.vresult);
		} else if (v1.type == TT_ERROR) FAIL("(%d,%d): rc OK but error-typed VAR", row, col);
		if (row == 0 && r1 == VR_OK && v1.type != TT_STRING) FAIL("heading cell (0,%d) has type %d", col, v1.type);
		// Value2
		for (int pass = 0; pass < 2; ++pass) {
			char buf[400]; memset(buf, '#', sizeof(buf));
			unsigned int blen = pass == 0 ? 300 : 5;
			int vt = -77; double dv = -7.25e77;
			int r3 = (int)GetSelectedOutputValue2(id, row, col, &vt, &dv, buf, blen);
			if (r3 != r1) FAIL("Value2 rc %d vs %d at (%d,%d)", r3, r1, row, col);
			char exp[400]; exp[0] = 0; bool has = false; int et = v1.type; double ed = -7.25e77;
			if (v1.type == TT_LONG) { et = TT_DOUBLE; ed = (double)v1.lVal; snprintf(exp, sizeof exp, "%ld", v1.lVal); has = true; }
			else if (v1.type == TT_DOUBLE) { ed = v1.dVal; snprintf(exp, sizeof exp, "%23.15e", v1.dVal); has = true; }
			else if (v1.type == TT_STRING) { snprintf(exp, sizeof exp, "%s", v1.sVal); has = strlen(v1.sVal) < sizeof(exp) - 1; }
			if (vt != et) FAIL("Value2 vtype %d expected %d at (%d,%d)", vt, et, row, col);
			if (memcmp(&dv, &ed, sizeof(double)) != 0) FAIL("Value2 dvalue differs at (%d,%d)", row, col);
			if (has) {
				char e2[400]; memset(e2, '#', sizeof e2); strncpy(e2, exp, blen);
				if (memcmp(e2, buf, sizeof e2) != 0) FAIL("Value2 svalue differs at (%d,%d) len %u", row, col, blen);
			} else if (v1.type != TT_STRING) {
				for (size_t q = 0; q < sizeof buf; ++q) if (buf[q] != '#') FAIL("Value2 wrote svalue for type %d at (%d,%d)", v1.type, row, col);
			}
		}
		// F glue: col is 1-based, row unchanged
		if (col < 2147483647) {
			for (int pass = 0; pass < 2; ++pass) {
				char buf[400]; memset(buf, '#', sizeof(buf));
				int blen = pass == 0 ? 300 : 5, len = blen;
				int vt = -77; double dv = -7.25e77; int fid = id, frow = row, fcol = col + 1;
				int r4 = (int)GetSelectedOutputValueF(&fid, &frow, &fcol, &vt, &dv, buf, &len);
				if (r4 != r1) FAIL("ValueF rc %d vs %d at (%d,%d)", r4, r1, row, col);
				char exp[400]; exp[0] = 0; bool has = false; int et = v1.type; double ed = -7.25e77;
				if (v1.type == TT_LONG) { et = TT_DOUBLE; ed = (double)v1.lVal; snprintf(exp, sizeof exp, "%ld", v1.lVal); has = true; }
				else if (v1.type == TT_DOUBLE) { ed = v1.dVal; snprintf(exp, sizeof exp, "%23.15e", v1.dVal); has = true; }
				else if (v1.type == TT_STRING) { snprintf(exp, sizeof exp, "%s", v1.sVal); has = strlen(v1.sVal) < sizeof(exp) - 1; }
				if (vt != et) FAIL("ValueF vtype %d expected %d at (%d,%d)", vt, et, row, col);
				if (memcmp(&dv, &ed, sizeof(double)) != 0) FAIL("ValueF dvalue differs at (%d,%d)", row, col);
				if (has) {
					char e2[400]; memset(e2, '#', sizeof e2);
					int L = (int)strlen(exp);
					for (int q = 0; q < blen; ++q) e2[q] = q < L ? exp[q] : ' ';
					if (memcmp(e2, buf, sizeof e2) != 0) FAIL("ValueF svalue/padding differs at (%d,%d) len %d", row, col, blen);
					if (len != L) FAIL("ValueF reported length %d expected %d at (%d,%d)", len, L, row, col);
				}
			}
		}
		VarClear(&v1); VarClear(&v2);
		++count;
	}
#undef FAIL
	return count;
}

} // extern "C"
