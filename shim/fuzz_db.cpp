// C08 engine A (database leg): the bytes are the *database text* for LoadDatabaseString; when the load
// succeeds a small run follows on the freshly loaded database.  Same oracle as fuzz_run (fuzz_common.h);
// the iteration ends with a reload of the small database (+ probe when anything failed).
// Last byte = switches (bit 0 output string, 1 log string, 2 run the follow-up through RunAccumulated).
#define C08_WITH_MUTATOR 1
#include "fuzz_common.h"
#include <fuzzer/FuzzedDataProvider.h>

using namespace c08;

static const char FOLLOW[] =
	"SOLUTION 1\n pH 7\n Na 1\n Cl 1\n Ca 1\n C 1\n"
	"EQUILIBRIUM_PHASES 1\n Calcite 0 1\n"
	"SELECTED_OUTPUT\n -reset false\n -pH\n -totals Ca\n"
	"END\n";

extern "C" int LLVMFuzzerInitialize(int *argc, char ***argv)
{
	(void)argc; (void)argv;
	init_common();
	return 0;
}

extern "C" size_t LLVMFuzzerCustomMutator(uint8_t *Data, size_t Size, size_t MaxSize, unsigned int Seed)
{
	return mutate_text(Data, Size, MaxSize, Seed, 1);
}

extern "C" int LLVMFuzzerTestOneInput(const uint8_t *data, size_t size)
{
	init_common();
	periodic();
	g_cnt["execs"]++;
	if (names_special_file(data, size)) { g_cnt["skipped_special_file"]++; return 0; }
	FuzzedDataProvider fdp(data, size);
	unsigned sw = fdp.ConsumeIntegral<uint8_t>();
	std::string text = fdp.ConsumeRemainingBytesAsString();
	if (names_outside_path(text)) { g_cnt["skipped_outside_path"]++; return 0; }
	if (const char *k = known_trigger(text)) { g_cnt[std::string("skipped_known_") + k]++; return 0; }
	if (const char *k = known_trigger_db(text)) { g_cnt[std::string("skipped_known_") + k]++; return 0; }
	uint8_t mb = 0xdb;
	uint64_t h = fnv((const uint8_t *)text.data(), text.size(), fnv(&mb, 1));

	FI *I = g_I;
	if (!g_fresh) load_small(I, "at start of iteration");
	g_fresh = false;
	files_off(I);
	set_strings(I, sw & 1, sw & 2, false, false);
	bool planted = !contains(text, "C08MARK");
	if (planted) { I->AddError((std::string(MARK_E) + "\n").c_str()); I->AddWarning((std::string(MARK_W) + "\n").c_str()); }

	std::string dbtext = pregrow_line() + text;      // F5 exclusion by construction (empty in strict replays)
	int rc = guarded("LoadDatabaseString", [&] { return I->LoadDatabaseString(dbtext.c_str()); });
	CallInfo ci = check_after_call(I, "LoadDatabaseString", rc, true, planted);
	bool failed = ci.failed;
	// classification of the database text itself
	{
		const char *cls;
		bool reached;
		std::string es = I->GetErrorString();
		if (rc == 0) { cls = "db_loaded"; reached = true; }
		else if (contains(es, "terminating due to input errors")) { cls = "db_fail_tidy"; reached = true; }
		else { cls = "db_fail_reader"; reached = false; }
		g_cnt[std::string("class_") + cls]++;
		size_t nl = count_nonblank_lines(text.c_str(), strlen(text.c_str()));
		if (reached && nl >= 2) {
			g_cnt["nontrivial"]++;
			note_nt_hash(h);
		}
	}
	g_cnt[failed ? "calls_failed" : "calls_ok"]++;
	if (rc == 0) {
		// follow-up run on the database just loaded (it may legitimately fail: the database is arbitrary)
		I->SetSelectedOutputStringOn(true);
		I->AddError((std::string(MARK_E) + "\n").c_str());
		I->AddWarning((std::string(MARK_W) + "\n").c_str());
		int rc2;
		if (sw & 4) {
			int r = guarded("AccumulateLine", [&] { return (int)I->AccumulateLine(FOLLOW); });
			if (r != 0) fail("accumulate_rc", "AccumulateLine returned non-zero");
			rc2 = guarded("RunAccumulated(follow-up)", [&] { return I->RunAccumulated(); });
		} else {
			rc2 = guarded("RunString(follow-up)", [&] { return I->RunString(FOLLOW); });
		}
		CallInfo c2 = check_after_call(I, "follow-up run", rc2, false, true);
		g_cnt[std::string("follow_") + c2.cls]++;
		failed = failed || c2.failed;
	}
	const char *ks = failed ? known_state_after_failure(I) : 0;
	if (ks) {
		g_cnt[std::string("skipped_known_") + ks]++;
		g_I = 0; g_inlib++; delete I; g_inlib--;
		g_I = new FI;
		g_fresh = false;
	} else if (failed) {
		reload_and_probe(I, "failed database load / follow-up", h);
	} else {
		load_small(I, "after a successful load");
	}
	return 0;
}
