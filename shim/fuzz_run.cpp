// C08 engine A: libFuzzer target for the Run* entry points and the file-name arguments.
//
// Input layout (FuzzedDataProvider conventions: control bytes are taken from the END of the data so that the
// text stays a natural prefix): last byte = selector, second to last = switches, the rest = text.
//   selector % 8: 0-3 RunString(text) | 4 AccumulateLine x n + RunAccumulated | 5 RunFile(scratch file holding the bytes)
//                 | 6 RunFile(text used as file name) | 7 LoadDatabase(text used as file name)
//   switches bits: 0 output string, 1 log string, 2 dump string, 3 selected-output string,
//                  4 output file, 5 log file, 6 error file (names fixed by the harness inside the scratch directory;
//                  dump and selected-output *files* stay off: their names can be chosen by the input text)
// Every iteration starts from LoadDatabaseString(small db), so a saved input reproduces alone.
#define C08_WITH_MUTATOR 1
#include "fuzz_common.h"
#include <fuzzer/FuzzedDataProvider.h>

using namespace c08;

extern "C" int LLVMFuzzerInitialize(int *argc, char ***argv)
{
	(void)argc; (void)argv;
	init_common();
	return 0;
}

extern "C" size_t LLVMFuzzerCustomMutator(uint8_t *Data, size_t Size, size_t MaxSize, unsigned int Seed)
{
	return mutate_text(Data, Size, MaxSize, Seed, 2);
}

extern "C" int LLVMFuzzerTestOneInput(const uint8_t *data, size_t size)
{
	init_common();
	periodic();
	g_cnt["execs"]++;
	struct Tot { double t0; Tot() : t0(now_ms()) {} ~Tot() { static double acc = 0; acc += now_ms() - t0; g_cnt["ms_total_in_target"] = (unsigned long long)acc; } } tot_;
	if (names_special_file(data, size)) { g_cnt["skipped_special_file"]++; return 0; }
	FuzzedDataProvider fdp(data, size);
	unsigned sel = fdp.ConsumeIntegral<uint8_t>();
	unsigned sw = fdp.ConsumeIntegral<uint8_t>();
	std::string text = fdp.ConsumeRemainingBytesAsString();
	int mode = sel % 8;
	if (mode < 4) mode = 0;
	if (mode < 6 && names_outside_path(text)) { g_cnt["skipped_outside_path"]++; return 0; }
	if (const char *k = mode < 6 ? known_trigger(text) : 0) { g_cnt[std::string("skipped_known_") + k]++; return 0; }
	uint8_t mb = (uint8_t)mode;
	uint64_t h = fnv((const uint8_t *)text.data(), text.size(), fnv(&mb, 1));

	FI *I = g_I;
	if (!g_fresh) load_small(I, "at start of iteration");
	g_fresh = false;
	set_strings(I, sw & 1, sw & 2, sw & 4, sw & 8);
	files_off(I);
	if (sw & 0x70) {
		I->SetOutputFileName((g_scratch + "/fz.out").c_str());
		I->SetLogFileName((g_scratch + "/fz.log").c_str());
		I->SetErrorFileName((g_scratch + "/fz.err").c_str());
		I->SetOutputFileOn((sw & 0x10) != 0);
		I->SetLogFileOn((sw & 0x20) != 0);
		I->SetErrorFileOn((sw & 0x40) != 0);
	}
	bool planted = !contains(text, "C08MARK");
	if (planted) { I->AddError((std::string(MARK_E) + "\n").c_str()); I->AddWarning((std::string(MARK_W) + "\n").c_str()); }

	double t0 = now_ms();
	int rc = 0;
	bool is_load = false;
	const char *what = "";
	static const char *MODE[] = {"run_string", "", "", "", "run_accumulated", "run_file", "name_run_file", "name_load_database"};
	switch (mode) {
	case 0:
		what = "RunString";
		rc = guarded(what, [&] { return I->RunString(text.c_str()); });
		break;
	case 4: {
		what = "RunAccumulated";
		size_t a = 0;
		std::string t(text.c_str());
		for (size_t i = 0; i <= t.size(); i++) {
			if (i == t.size() || t[i] == '\n') {
				std::string line = t.substr(a, i - a);
				a = i + 1;
				int r = guarded("AccumulateLine", [&] { return (int)I->AccumulateLine(line.c_str()); });
				if (r != 0) fail("accumulate_rc", "AccumulateLine returned non-zero");
			}
		}
		rc = guarded(what, [&] { return I->RunAccumulated(); });
		break;
	}
	case 5: {
		what = "RunFile";
		std::string p = g_scratch + "/fz_in.pqi";
		FILE *f = fopen(p.c_str(), "wb");
		if (!f) harness_error("cannot write scratch input file");
		fwrite(text.data(), 1, text.size(), f);
		fclose(f);
		rc = guarded(what, [&] { return I->RunFile(p.c_str()); });
		unlink(p.c_str());
		break;
	}
	case 6:
		what = "RunFile(name)";
		rc = guarded(what, [&] { return I->RunFile(text.c_str()); });
		break;
	default:
		what = "LoadDatabase(name)";
		is_load = true;
		rc = guarded(what, [&] { return I->LoadDatabase(text.c_str()); });
		break;
	}
	double t1 = now_ms();
	CallInfo ci = check_after_call(I, what, rc, is_load, planted);
	note_time(mode >= 6 ? "name" : ci.cls, t1 - t0);
	g_cnt[std::string("mode_") + MODE[mode]]++;
	g_cnt[ci.failed ? "calls_failed" : "calls_ok"]++;
	if (mode >= 6) {
		g_cnt[std::string("class_name_") + (ci.failed ? "fail" : "ok")]++;
	} else {
		note_case(ci, "", h, count_nonblank_lines(text.data(), text.size()));
	}
	files_off(I);
	// clause (4)
	const char *ks = ci.failed ? known_state_after_failure(I) : 0;
	if (ks) {
		g_cnt[std::string("skipped_known_") + ks]++;
		g_I = 0; g_inlib++; delete I; g_inlib--;
		g_I = new FI;
		g_fresh = false;
	} else if (ci.failed) {
		reload_and_probe(I, what, h);     // leaves g_fresh = false: the next iteration starts with its own load
	} else {
		load_small(I, "after a successful call");
	}
	note_time("reload_probe", now_ms() - t1);
	return 0;
}
