// C07: host BASIC callbacks (SetBasicCallback / SetBasicFortranCallback) defined inside the shim so that a history can
// register one before a load and a follow-up can see through BASIC CALLBACK(x1, x2, "str") whether it is still registered.
#include <cstring>
#include "IPhreeqc.h"

namespace {
long c07_calls = 0;
double c07_cookie_a = 1000.0;
double c07_cookie_b = 5000.0;

double c07_cb(double x1, double x2, const char *str, void *cookie)
{
	++c07_calls;
	double c = cookie ? *(double *)cookie : 0.0;
	return x1 + 2.0 * x2 + (double)(str ? strlen(str) : 0) + c;
}

#ifdef IPHREEQC_NO_FORTRAN_MODULE
double c07_fcb(double *x1, double *x2, const char *str, size_t l)
#else
double c07_fcb(double *x1, double *x2, const char *str, int l)
#endif
{
	++c07_calls;
	(void)str;
	return 3.0 * (*x1) + 5.0 * (*x2) + (double)l + 70000.0;
}
}

// mode 0: unregister both; 1: C callback with cookie a; 2: C callback with cookie b; 3: Fortran-style callback
extern "C" int c07_set_basic_callback(int id, int mode)
{
	switch (mode)
	{
	case 0:
	{
		int r = SetBasicCallback(id, NULL, NULL);
		int r2 = SetBasicFortranCallback(id, NULL);
		return r != IPQ_OK ? r : r2;
	}
	case 1:
		return SetBasicCallback(id, c07_cb, &c07_cookie_a);
	case 2:
		return SetBasicCallback(id, c07_cb, &c07_cookie_b);
	case 3:
		return SetBasicFortranCallback(id, c07_fcb);
	}
	return -99;
}

extern "C" long c07_callback_calls(void)
{
	return c07_calls;
}
