// C08 - oracle shared by the three sanitizer-built targets (fuzz_run, fuzz_db, apirunner_asan).
//
// Every library call is made through guarded(): an escaping C++ exception, a library-initiated
// exit()/_exit() (interposed at link time with -Wl,--wrap) or a violated clause of the oracle ends in
// fail(): one line "C08-ORACLE: <oracle>: <message>" on stderr, counters dumped, then a trap (SIGILL), which
// libFuzzer turns into a crash-* artifact and which kills apirunner_asan (the Python side attributes the
// death to the case in flight).  Signals and ASan/UBSan reports end the process by themselves.
//
// Oracle (DESIGN.md 5/C08), for a call made on an instance with no failed call since its last load:
//  (1) the call returns;
//  (2) rc != 0  <=>  GetErrorString() non-empty  <=>  GetErrorStringLineCount() > 0;
//      warning string non-empty <=> warning line count > 0;
//  (3) text planted before the call with AddError/AddWarning (markers) is gone after it - string and line
//      views describe this call only; after a successful call the error string is empty (implied by 2);
//  (4) after a failed call LoadDatabaseString(small db) returns 0 with an empty error string and a fixed
//      probe input reproduces bitwise (rc, error, warning, selected-output and output strings) what a fresh
//      instance produced at start-up.  Two probes: a light one (one initial solution + selected output, ~1 ms under ASan) and a
//      heavy one (exchange, surface, reaction steps, output string; ~20 ms).  Which one is used is a function
//      of the input bytes (heavy for 1 input hash in 8; C08_PROBE=heavy|light overrides), so that a saved
//      input reproduces alone.
#pragma once
#include <cstdio>
#include <cstdlib>
#include <cstring>
#include <cstdint>
#include <string>
#include <vector>
#include <map>
#include <unordered_set>
#include <fstream>
#include <sstream>
#include <exception>
#include <unistd.h>
#include <time.h>
#include <signal.h>
#include <sys/stat.h>
#include <sys/resource.h>
#include "IPhreeqc.hpp"
// read-only peek at three engine counters (simulation, state, keycount) for the non-trivial classification;
// access specifiers do not change the object layout
#define protected public
#include "Phreeqc.h"
#undef protected
#include "Keywords.h"

extern "C" const char *__asan_default_options() { return "detect_leaks=0:allocator_may_return_null=1:handle_abort=1"; }
extern "C" const char *__ubsan_default_options() { return "print_stacktrace=1:halt_on_error=0"; }

namespace c08 {

class FI : public IPhreeqc {
public:
	Phreeqc *P() { return this->PhreeqcPtr; }
};

static volatile int g_inlib = 0;              // > 0 while a library call is on the stack
static std::map<std::string, unsigned long long> g_cnt;
static std::string g_stats_path, g_scratch, g_verif, g_db_text, g_db_plain;
static std::unordered_set<uint64_t> g_nt;     // hashes of distinct non-trivial inputs
static const size_t NT_CAP = 2000000;
static FILE *g_hash_file = 0;                 // <stats>.h: one line per new non-trivial input hash (appended)
static int g_probe_mode = 0;                  // 0 by input hash, 1 always heavy, 2 always light
static FI *g_I = 0;
static bool g_fresh = false;                  // instance freshly loaded with the small db, nothing since
static const char MARK_E[] = "C08MARK-E";
static const char MARK_W[] = "C08MARK-W";

struct Ref { int rc; std::string err, warn, sel, out; };
static Ref g_ref, g_ref_light;

static const char PROBE[] =
	"TITLE c08 probe\n"
	"SOLUTION 1\n pH 7.5\n temp 20\n Na 12\n Cl 10 charge\n Ca 2\n C(4) 3\n S(6) 1\n Fe 0.02\n"
	"EQUILIBRIUM_PHASES 1\n Calcite 0 0.01\n Goethite 0 0\n"
	"EXCHANGE 1\n X 0.02\n -equilibrate 1\n"
	"SURFACE 1\n Hfo_w 0.002 600 1\n Hfo_s 0.0001\n -equilibrate 1\n"
	"REACTION 1\n CO2 1\n 0.001 moles in 2 steps\n"
	"SELECTED_OUTPUT 1\n -reset false\n -high_precision true\n -pH true\n -pe true\n -totals Ca C(4) Fe S(6)\n -molalities CaX2 Hfo_wOH2+\n -si Calcite Gypsum CO2(g)\n"
	"USER_PUNCH 1\n -headings mu chg\n 10 PUNCH MU, CHARGE_BALANCE\n"
	"END\n";

static const char PROBE_LIGHT[] =
	"TITLE c08 light probe\n"
	"SOLUTION 1\n pH 7.5\n temp 20\n Na 12\n Cl 10 charge\n Ca 2\n C(4) 3\n S(6) 1\n Fe 0.02\n"
	"SELECTED_OUTPUT 1\n -reset false\n -high_precision true\n -pH true\n -pe true\n -totals Ca C(4) Fe S(6)\n -molalities CaCO3 FeOH+\n -si Calcite Gypsum CO2(g) Goethite\n"
	"USER_PUNCH 1\n -headings mu chg\n 10 PUNCH MU, CHARGE_BALANCE\n"
	"END\n";

static inline bool contains(const char *hay, size_t n, const char *needle)
{
	size_t m = strlen(needle);
	if (m == 0 || n < m) return false;
	for (size_t i = 0; i + m <= n; i++) {
		size_t j = 0;
		while (j < m && hay[i + j] == needle[j]) j++;
		if (j == m) return true;
	}
	return false;
}
static inline bool contains(const std::string &s, const char *needle) { return contains(s.data(), s.size(), needle); }

static inline uint64_t fnv(const uint8_t *d, size_t n, uint64_t h = 1469598103934665603ULL)
{
	for (size_t i = 0; i < n; i++) { h ^= d[i]; h *= 1099511628211ULL; }
	return h;
}

static void dump_stats()
{
	if (g_stats_path.empty()) return;
	std::string tmp = g_stats_path + ".tmp";
	FILE *f = fopen(tmp.c_str(), "w");
	if (!f) return;
	for (std::map<std::string, unsigned long long>::iterator it = g_cnt.begin(); it != g_cnt.end(); ++it)
		fprintf(f, "%s %llu\n", it->first.c_str(), it->second);
	{
		struct timespec ts;
		clock_gettime(CLOCK_PROCESS_CPUTIME_ID, &ts);
		fprintf(f, "cpu_ms_process %llu\n", (unsigned long long)(ts.tv_sec * 1e3 + ts.tv_nsec / 1e6));
	}
	fprintf(f, "nt_distinct %zu\n", g_nt.size());
	fclose(f);
	rename(tmp.c_str(), g_stats_path.c_str());
	if (g_hash_file) fflush(g_hash_file);
}

static void note_nt_hash(uint64_t h)
{
	if (g_nt.size() >= NT_CAP) return;
	if (g_nt.insert(h).second && g_hash_file) fprintf(g_hash_file, "%016llx\n", (unsigned long long)h);
}

[[noreturn]] static void fail(const char *oracle, const std::string &msg)
{
	std::string m = msg.substr(0, 1500);
	for (size_t i = 0; i < m.size(); i++) if (m[i] == '\n') m[i] = '|';
	fprintf(stderr, "\nC08-ORACLE: %s: %s\n", oracle, m.c_str());
	fflush(stderr);
	g_cnt[std::string("trap_") + oracle]++;
	dump_stats();
	__builtin_trap();
}

[[noreturn]] static void harness_error(const std::string &msg)
{
	fprintf(stderr, "\nC08-HARNESS-ERROR: %s\n", msg.c_str());
	fflush(stderr);
	g_inlib = 0;
	_Exit(3);
}

template <class F> static int guarded(const char *what, F f)
{
	int rc = 0;
	g_inlib++;
	try {
		rc = f();
	} catch (const std::exception &e) {
		fail("escaping_exception", std::string(what) + " threw std::exception: " + e.what());
	} catch (...) {
		fail("escaping_exception", std::string(what) + " threw a non-standard exception");
	}
	g_inlib--;
	return rc;
}

static std::string slurp(const std::string &path)
{
	std::ifstream f(path.c_str(), std::ios::binary);
	std::ostringstream s;
	s << f.rdbuf();
	return s.str();
}

// inputs that would make the process read endless or blocking special files are outside the experiment
// (RunFile("/dev/zero"), INCLUDE$ /dev/stdin ...): not a library defect, counted as skipped
static bool names_special_file(const uint8_t *d, size_t n)
{
	std::string s((const char *)d, n);
	for (const char *ok : {"/dev/null", "/dev/full"}) {
		size_t p;
		while ((p = s.find(ok)) != std::string::npos) s.replace(p, strlen(ok), "@");
	}
	return contains(s, "/dev") || contains(s, "/proc") || contains(s, "/sys") || contains(s, "/run/") || contains(s, "/fd/");
}

// Input *text* can name files the engine creates (INVERSE_MODELING -lon_netpath/-pat_netpath, TRANSPORT
// -dump, ...).  Relative names land in the scratch directory (the working directory); a token that starts an
// absolute path or climbs out with ".." could write anywhere (the sandbox runs as root), so such texts are
// outside the experiment (counted).  "/ " as in BASIC "a / b" and "mol/kgw" are not paths.
static bool names_outside_path(const std::string &t)
{
	for (size_t i = 0; i < t.size(); i++) {
		char c = t[i];
		if (c == '/' ) {
			bool tok_start = i == 0 || t[i - 1] == ' ' || t[i - 1] == '\t' || t[i - 1] == '\n' || t[i - 1] == '\r' || t[i - 1] == '"' || t[i - 1] == '\'' || t[i - 1] == '=' || t[i - 1] == ',' || t[i - 1] == ';' || t[i - 1] == '$';
			bool next_name = i + 1 < t.size() && !(t[i + 1] == ' ' || t[i + 1] == '\t' || t[i + 1] == '\n' || t[i + 1] == '\r');
			if (tok_start && next_name) return true;
		}
		if (c == '.' && i + 1 < t.size() && t[i + 1] == '.' && ((i + 2 < t.size() && t[i + 2] == '/') || (i > 0 && t[i - 1] == '/'))) return true;
	}
	return false;
}

// ---- input filter for confirmed root causes on the unchanged tree (campaigns continue behind them; every skip
//      is counted as skipped_known_<name>; the minimal inputs are in /verif/replays/C08/known/).
//      C08_NO_KNOWN_FILTER=1 disables the filter (used to replay the known findings).
static bool g_no_known_filter = false;

static std::string lower(const std::string &s)
{
	std::string r = s;
	for (size_t i = 0; i < r.size(); i++) if (r[i] >= 'A' && r[i] <= 'Z') r[i] += 32;
	return r;
}

// first token of every logical line (lines end at \n or ;), lower case
template <class F> static void for_each_first_token(const std::string &text, F f)
{
	size_t i = 0, n = text.size();
	while (i < n) {
		while (i < n && (text[i] == ' ' || text[i] == '\t' || text[i] == '\r')) i++;
		size_t a = i;
		while (i < n && !(text[i] == ' ' || text[i] == '\t' || text[i] == '\r' || text[i] == '\n' || text[i] == ';')) i++;
		if (i > a) f(lower(text.substr(a, i - a)));
		while (i < n && text[i] != '\n' && text[i] != ';') i++;
		i++;
	}
}

// all blank-separated tokens of every logical line, first token lower case
template <class F> static void for_each_line(const std::string &text, F f)
{
	size_t i = 0, n = text.size();
	while (i < n) {
		std::vector<std::string> toks;
		while (i < n && text[i] != '\n' && text[i] != ';') {
			while (i < n && (text[i] == ' ' || text[i] == '\t' || text[i] == '\r')) i++;
			size_t a = i;
			while (i < n && !(text[i] == ' ' || text[i] == '\t' || text[i] == '\r' || text[i] == '\n' || text[i] == ';')) i++;
			if (i > a) toks.push_back(text.substr(a, i - a));
		}
		i++;
		if (!toks.empty()) { toks[0] = lower(toks[0]); f(toks); }
	}
}

static inline bool is_prefix_of(const std::string &t, const char *full) { return !t.empty() && strncmp(t.c_str(), full, t.size()) == 0 && t.size() <= strlen(full); }

static const char *known_trigger(const std::string &raw)
{
	if (g_no_known_filter) return 0;
	const char *hit = 0;
	// join continuation lines (backslash, optional blanks, newline) the way the line reader does
	std::string text;
	for (size_t i = 0; i < raw.size(); i++) {
		if (raw[i] == '\\') {
			size_t j = i + 1;
			while (j < raw.size() && (raw[j] == ' ' || raw[j] == '\t' || raw[j] == '\r')) j++;
			if (j < raw.size() && raw[j] == '\n') { i = j; continue; }
		}
		text += raw[i];
	}
	// (filters of repaired defects F1, F3, F6, F8 were removed when the fix: commits landed; their inputs are now
	//  regression replays replays/C08/fixed-*.json)
	int kw = Keywords::KEY_NONE;
	for_each_line(text, [&](const std::vector<std::string> &toks) {
		const std::string &tok = toks[0];
		int k = Keywords::Keyword_search(tok);
		if (k != Keywords::KEY_NONE) { kw = k; return; }
		(void)kw;
	});
	return hit;
}

// database texts only (LoadDatabaseString payloads)
static const char *known_trigger_db(const std::string &text)
{
	if (g_no_known_filter) return 0;
	(void)text;
	return 0;
}

// triggers that can only be recognised from the engine state after a failed call: the instance is then replaced
// instead of reloaded (counted).  (F2, F4 repaired: none at present.)
static const char *known_state_after_failure(FI *I)
{
	if (g_no_known_filter) return 0;
	(void)I;
	return 0;
}

// text put in front of every database text by the harness (exclusion by construction; empty: F5 repaired)
static std::string pregrow_line()
{
	return std::string();
}

// ---- UBSan reports (the asan variant is built with -fsanitize-recover=undefined, so the decision is made here):
//      a report whose (check kind, source file, enclosing function) is a recorded known finding is counted and the
//      execution continues; every other report is fatal (line numbers are not used: they move with every commit).  UBSan itself reports a source location once per process, so the
//      counters count processes (campaign segments / runner batches) in which the site was reached.
//      C08_NO_KNOWN_FILTER=1 (strict replays) makes every report fatal; C08_UB_COLLECT=1 (triage runs only)
//      lets every report of an integer-conversion/overflow/index kind continue and counts it as ub_site_*.
struct UbSite { const char *kind, *file, *func; const char *name; };   // file: base name or "*"; func: substring of the demangled function name or of the report text (enum type)
static const UbSite KNOWN_UB[] = {
#include "c08_known_ub.inc"
	{0, 0, 0, 0}
};
static bool g_ub_collect = false;

static const char *base_name(const char *p)
{
	const char *b = p;
	for (const char *q = p; q && *q; q++) if (*q == '/') b = q + 1;
	return b ? b : "";
}

static void set_strings(FI *I, bool out, bool log, bool dump, bool sel)
{
	I->SetErrorStringOn(true);
	I->SetOutputStringOn(out);
	I->SetLogStringOn(log);
	I->SetDumpStringOn(dump);
	I->SetCurrentSelectedOutputUserNumber(1);
	I->SetSelectedOutputStringOn(sel);
}

static void files_off(FI *I)
{
	I->SetOutputFileOn(false);
	I->SetLogFileOn(false);
	I->SetErrorFileOn(false);
	I->SetDumpFileOn(false);
	I->SetSelectedOutputFileOn(false);
}

// the only wall-clock dependent part of the output stream is the banner "----/End of Run after 0.06 Seconds./----"
// (the dashes are sized to the text): the banner lines are removed before comparing
static std::string strip_clock(const std::string &o)
{
	std::string r = o;
	size_t p;
	while ((p = r.find("End of Run after ")) != std::string::npos) {
		size_t a = p;
		for (int k = 0; k < 2 && a > 0; k++) { a--; while (a > 0 && r[a - 1] != '\n') a--; }   // start of the dashed line before
		size_t e = p;
		for (int k = 0; k < 2 && e < r.size(); k++) { while (e < r.size() && r[e] != '\n') e++; if (e < r.size()) e++; }
		r.replace(a, e - a, "<end-of-run banner>\n");
	}
	return r;
}

static Ref run_probe(FI *I, bool heavy)
{
	Ref r;
	files_off(I);
	set_strings(I, heavy, false, false, true);
	r.rc = guarded("RunString(probe)", [&] { return I->RunString(heavy ? PROBE : PROBE_LIGHT); });
	r.err = I->GetErrorString();
	r.warn = I->GetWarningString();
	r.sel = I->GetSelectedOutputString();
	r.out = heavy ? strip_clock(I->GetOutputString()) : std::string();
	return r;
}

struct CallInfo {
	int rc;
	bool failed;
	const char *cls;     // success_calc success_nocalc fail_calc fail_tidy fail_reader
	bool reached;        // reached tidy_model or a calculation
	bool keyword;        // a keyword other than END was read (last simulation) or an earlier simulation completed
};

// clauses (2) and (3) after a call; is_load: the call was LoadDatabase / LoadDatabaseString
static CallInfo check_after_call(FI *I, const char *what, int rc, bool is_load, bool planted)
{
	CallInfo ci;
	std::string es = I->GetErrorString();
	std::string ws = I->GetWarningString();
	int elc = I->GetErrorStringLineCount();
	int wlc = I->GetWarningStringLineCount();
	bool has_err = !es.empty();
	if ((rc != 0) != has_err) {
		char b[200];
		snprintf(b, sizeof b, "%s returned %d but the error string is %s: ", what, rc, has_err ? "not empty" : "empty");
		fail("rc_vs_error_string", b + es.substr(0, 600));
	}
	bool lines_bad = ((elc > 0) != has_err);
	bool wlines_bad = ((wlc > 0) != !ws.empty());
	if (lines_bad) {
		char b[200];
		snprintf(b, sizeof b, "%s returned %d, error string %zu bytes, but GetErrorStringLineCount() = %d", what, rc, es.size(), elc);
		fail("error_line_count", b);
	}
	if (wlines_bad) {
		char b[200];
		snprintf(b, sizeof b, "%s: warning string %zu bytes but GetWarningStringLineCount() = %d", what, ws.size(), wlc);
		fail("warning_line_count", b);
	}
	if (planted) {
		if (contains(es, MARK_E) || contains(es, MARK_W))
			fail("stale_error_text", std::string(what) + ": text recorded before the call is still in the error string: " + es.substr(0, 400));
		if (contains(ws, MARK_W) || contains(ws, MARK_E))
			fail("stale_warning_text", std::string(what) + ": text recorded before the call is still in the warning string: " + ws.substr(0, 400));
		for (int i = 0; i < elc && i < 50; i++) {
			const char *l = I->GetErrorStringLine(i);
			if (contains(l, strlen(l), MARK_E)) fail("stale_error_text", std::string(what) + ": error line view still holds text recorded before the call");
		}
		for (int i = 0; i < wlc && i < 50; i++) {
			const char *l = I->GetWarningStringLine(i);
			if (contains(l, strlen(l), MARK_W)) fail("stale_warning_text", std::string(what) + ": warning line view still holds text recorded before the call");
		}
	}
	ci.rc = rc;
	ci.failed = rc != 0;
	// how far did the input get (public counters of the engine, read through the protected pointer)
	Phreeqc *P = I->P();
	int sim = P->simulation;
	int st = P->state;
	unsigned kw = 0;
	for (size_t i = 1; i < P->keycount.size(); i++)
		if ((int)i != Keywords::KEY_END) kw += P->keycount[i];
	ci.keyword = kw > 0 || sim >= 2;
	if (rc == 0) {
		ci.reached = sim >= 2;
		ci.cls = ci.reached ? (st > 0 ? "success_calc" : "success_tidy_only") : "success_nothing_read";
	} else {
		bool tidy_msg = contains(es, "terminating due to input errors");
		if (sim >= 2 || (st != 1 && st != 0)) { ci.reached = true; ci.cls = "fail_calc"; }
		else if (tidy_msg) { ci.reached = true; ci.cls = "fail_tidy"; }
		else if (st == 0) { ci.reached = true; ci.cls = "fail_after_tidy"; }
		else { ci.reached = false; ci.cls = "fail_reader_or_first_calc"; }
	}
	return ci;
}

static void load_small(FI *I, const char *when)
{
	int rc = guarded("LoadDatabaseString(small)", [&] { return I->LoadDatabaseString(g_db_text.c_str()); });
	std::string es = I->GetErrorString();
	if (rc != 0 || !es.empty()) {
		char b[100];
		snprintf(b, sizeof b, "LoadDatabaseString(small db) %s returned %d: ", when, rc);
		fail("reload_failed", b + es.substr(0, 800));
	}
	g_fresh = true;
}

static std::string first_diff(const std::string &a, const std::string &b)
{
	size_t i = 0;
	while (i < a.size() && i < b.size() && a[i] == b[i]) i++;
	size_t s = i > 60 ? i - 60 : 0;
	char buf[64];
	snprintf(buf, sizeof buf, "first difference at byte %zu: ", i);
	return std::string(buf) + "fresh=[" + a.substr(s, 160) + "] now=[" + b.substr(s, 160) + "]";
}

// clause (4): reload + probe must reproduce the fresh answer; h = hash of the input (selects the probe)
static void reload_and_probe(FI *I, const char *after, uint64_t h)
{
	load_small(I, after);
	bool heavy = g_probe_mode == 1 || (g_probe_mode == 0 && ((h >> 17) & 7) == 0);
	Ref r = run_probe(I, heavy);
	const Ref &ref = heavy ? g_ref : g_ref_light;
	g_fresh = false;
	g_cnt[heavy ? "probes_heavy" : "probes_light"]++;
	if (r.rc != ref.rc) {
		char b[120];
		snprintf(b, sizeof b, "%s: probe returns %d, fresh instance gave %d: ", after, r.rc, ref.rc);
		fail("probe_rc", b + r.err.substr(0, 600));
	}
	if (r.err != ref.err) fail("probe_error_string", std::string(after) + ": " + first_diff(ref.err, r.err));
	if (r.warn != ref.warn) fail("probe_warning_string", std::string(after) + ": " + first_diff(ref.warn, r.warn));
	if (r.sel != ref.sel) fail("probe_selected_output", std::string(after) + ": " + first_diff(ref.sel, r.sel));
	if (r.out != ref.out) fail("probe_output", std::string(after) + ": " + first_diff(ref.out, r.out));
}

static std::string verif_dir()
{
	const char *e = getenv("C08_VERIF");
	if (e && *e) return e;
	std::string f = __FILE__;              // <VERIF>/shim/fuzz_common.h (absolute: build.py compiles absolute paths)
	size_t p = f.rfind("/shim/");
	if (p == std::string::npos) return "/verif";
	return f.substr(0, p);
}

static void init_common()
{
	static bool done = false;
	if (done) return;
	done = true;
	g_verif = verif_dir();
	const char *e;
	std::string dbp = (e = getenv("C08_DB")) && *e ? e : g_verif + "/corpus/small.dat";
	g_db_text = slurp(dbp);
	if (g_db_text.size() < 100) harness_error("cannot read small database " + dbp);
	g_db_plain = g_db_text;
	if ((e = getenv("C08_STATS")) && *e) g_stats_path = e;
	if (!g_stats_path.empty()) g_hash_file = fopen((g_stats_path + ".h").c_str(), "a");
	if ((e = getenv("C08_NO_KNOWN_FILTER")) && *e == '1') g_no_known_filter = true;
	if ((e = getenv("C08_UB_COLLECT")) && *e == '1') g_ub_collect = true;
	g_db_text = pregrow_line() + g_db_text;
	if ((e = getenv("C08_PROBE")) && *e) g_probe_mode = strcmp(e, "heavy") == 0 ? 1 : strcmp(e, "light") == 0 ? 2 : 0;
	if ((e = getenv("C08_SCRATCH")) && *e) g_scratch = e;
	else {
		char b[64];
		snprintf(b, sizeof b, "/build/scratch/c08.%d", (int)getpid());
		g_scratch = g_verif + b;
	}
	mkdir(g_scratch.c_str(), 0777);
	if (chdir(g_scratch.c_str()) != 0) harness_error("cannot chdir to scratch directory " + g_scratch);
	// fixed files for the file-name arguments and INCLUDE$ (relative names resolve in the scratch directory)
	{
		struct { const char *name, *text; } F[] = {
			{"ok.pqi", "SOLUTION 9\n pH 7\n Na 1\n Cl 1\nEND\n"},
			{"bad.pqi", "SOLUTION 9\n pH 7 charge\n pe 4 charge\n Nosuch 1\n -bad_option\nEND\n"},
			{"small.dat", 0},
		};
		for (auto &f : F) {
			FILE *o = fopen((g_scratch + "/" + f.name).c_str(), "wb");
			if (!o) harness_error(std::string("cannot create ") + f.name);
			if (f.text) fputs(f.text, o); else fwrite(g_db_text.data(), 1, g_db_text.size(), o);
			fclose(o);
		}
		mkdir((g_scratch + "/adir").c_str(), 0777);
	}
	// a write beyond 64 MB fails with EFBIG instead of filling the disk
	struct rlimit rl = {64u << 20, 64u << 20};
	setrlimit(RLIMIT_FSIZE, &rl);
	signal(SIGXFSZ, SIG_IGN);
	signal(SIGPIPE, SIG_IGN);
	// reference answer of the probe on two fresh instances
	FI *A = new FI, *B = new FI;
	for (FI *X : {A, B}) {
		int rc = guarded("LoadDatabaseString(small)", [&] { return X->LoadDatabaseString(g_db_text.c_str()); });
		if (rc != 0) harness_error(std::string("small database does not load: ") + X->GetErrorString());
	}
	g_ref = run_probe(A, true);
	Ref rb = run_probe(B, true);
	if (g_ref.rc != 0) harness_error("probe input fails on a fresh instance: " + g_ref.err);
	if (g_ref.sel != rb.sel || g_ref.out != rb.out || g_ref.warn != rb.warn) harness_error("probe is not deterministic between two fresh instances");
	if (g_ref.sel.size() < 50 || g_ref.out.size() < 1000) harness_error("probe produced no selected output / output");
	FI *C = new FI, *D = new FI;
	for (FI *X : {C, D}) {
		int rc = guarded("LoadDatabaseString(small)", [&] { return X->LoadDatabaseString(g_db_text.c_str()); });
		if (rc != 0) harness_error(std::string("small database does not load: ") + X->GetErrorString());
	}
	g_ref_light = run_probe(C, false);
	rb = run_probe(D, false);
	delete C;
	delete D;
	if (g_ref_light.rc != 0) harness_error("light probe fails on a fresh instance: " + g_ref_light.err);
	if (g_ref_light.sel != rb.sel || g_ref_light.warn != rb.warn) harness_error("light probe is not deterministic between two fresh instances");
	if (g_ref_light.sel.size() < 50) harness_error("light probe produced no selected output");
	delete B;
	g_I = A;
	g_fresh = false;
}

static void note_case(const CallInfo &ci, const char *prefix, uint64_t h, size_t nonblank_lines)
{
	g_cnt[std::string(prefix) + "class_" + ci.cls]++;
	bool nt = ci.reached && ci.keyword && nonblank_lines >= 2;
	if (nt) {
		g_cnt[std::string(prefix) + "nontrivial"]++;
		note_nt_hash(h);
	}
}

static size_t count_nonblank_lines(const char *s, size_t n)
{
	size_t k = 0;
	bool any = false;
	for (size_t i = 0; i < n; i++) {
		if (s[i] == '\n' || s[i] == ';') { if (any) k++; any = false; }
		else if (s[i] != ' ' && s[i] != '\t' && s[i] != '\r') any = true;
	}
	return k + (any ? 1 : 0);
}

static inline double now_ms()
{
	struct timespec ts;
	clock_gettime(CLOCK_PROCESS_CPUTIME_ID, &ts);   // CPU time: independent of the load of the machine
	return ts.tv_sec * 1e3 + ts.tv_nsec / 1e6;
}

// time statistics of the executions (information only; nothing is decided by time)
static void note_time(const char *cls, double ms)
{
	g_cnt[std::string("ms_") + cls] += (unsigned long long)(ms + 0.5);
	if (ms > 100) g_cnt["slow_over_100ms"]++;
	if (ms > 1000) g_cnt["slow_over_1s"]++;
}

static void periodic()
{
	static unsigned long long n = 0;
	if (++n % 100 == 0) dump_stats();
}

} // namespace c08

extern "C" void __ubsan_get_current_report_data(const char **kind, const char **msg, const char **file, unsigned *line, unsigned *col, char **addr);
extern "C" void __sanitizer_print_stack_trace(void);
extern "C" void __sanitizer_symbolize_pc(void *pc, const char *fmt, char *out_buf, size_t out_buf_size);
#include <execinfo.h>

// demangled name of the innermost library (or shim) function on the stack, i.e. the function the report is about
static std::string c08_report_function()
{
	void *pcs[16];
	int n = backtrace(pcs, 16);
	for (int i = 1; i < n; i++) {
		char buf[1024];
		buf[0] = 0;
		__sanitizer_symbolize_pc(pcs[i], "%f|%s", buf, sizeof buf);
		const char *bar = strchr(buf, '|');
		if (!bar) continue;
		if (strstr(bar, "/src/") == 0) continue;          // runtime frames (ubsan handlers) and system headers have no /src/ path
		return std::string(buf, bar - buf);
	}
	return "?";
}

extern "C" void __ubsan_on_report(void)
{
	const char *kind = 0, *msg = 0, *file = 0;
	unsigned line = 0, col = 0;
	char *addr = 0;
	__ubsan_get_current_report_data(&kind, &msg, &file, &line, &col, &addr);
	if (!kind) kind = "?";
	if (!file) file = "?";
	const char *bn = c08::base_name(file);
	std::string fn = c08_report_function();
	if (!c08::g_no_known_filter) {
		for (const c08::UbSite *u = c08::KNOWN_UB; u->kind; u++)
			if (strcmp(u->kind, kind) == 0 && (strcmp(u->file, "*") == 0 || strcmp(u->file, bn) == 0) &&
			    (fn.find(u->func) != std::string::npos || (msg && strstr(msg, u->func)))) {
				c08::g_cnt[std::string("known_ub_") + u->name]++;
				return;
			}
	}
	if (c08::g_ub_collect && (strcmp(kind, "float-cast-overflow") == 0 || strcmp(kind, "signed-integer-overflow") == 0 || strcmp(kind, "out-of-bounds-index") == 0 || strcmp(kind, "invalid-enum-load") == 0)) {
		char b[400];
		snprintf(b, sizeof b, "ub_site_%s:%s:%u", kind, bn, line);
		c08::g_cnt[b]++;
		return;
	}
	fprintf(stderr, "\nC08-UBSAN: %s: %s:%u:%u: %s [in %s]\n", kind, file, line, col, msg ? msg : "", fn.c_str());
	__sanitizer_print_stack_trace();
	fflush(stderr);
	c08::g_cnt["trap_ubsan"]++;
	c08::dump_stats();
	__builtin_trap();
}

// ---- link-time interposition (-Wl,--wrap=exit -Wl,--wrap=_exit): a library-initiated exit is a violation,
//      the harness' own termination (libFuzzer calls exit(0) after -runs) still works
extern "C" void __real_exit(int);
extern "C" void __real__exit(int);
extern "C" void __wrap_exit(int code)
{
	if (c08::g_inlib > 0) {
		char b[64];
		snprintf(b, sizeof b, "exit(%d) called inside a library call", code);
		c08::fail("exit_called", b);
	}
	c08::dump_stats();
	__real_exit(code);
}
extern "C" void __wrap__exit(int code)
{
	if (c08::g_inlib > 0) {
		char b[64];
		snprintf(b, sizeof b, "_exit(%d) called inside a library call", code);
		c08::fail("exit_called", b);
	}
	c08::dump_stats();
	__real__exit(code);
}

// ---- line / number level mutations on top of libFuzzer's byte mutations (fuzz targets only)
#ifdef C08_WITH_MUTATOR
extern "C" size_t LLVMFuzzerMutate(uint8_t *Data, size_t Size, size_t MaxSize);
namespace c08 {
static inline uint32_t xr(uint32_t &s) { s ^= s << 13; s ^= s >> 17; s ^= s << 5; return s; }

// tail = number of trailing control bytes that are left alone
static size_t mutate_text(uint8_t *Data, size_t Size, size_t MaxSize, unsigned int Seed, size_t tail)
{
	uint32_t s = Seed * 2654435761u + 12345u;
	if (s == 0) s = 1;
	if (Size <= tail + 2 || xr(s) % 3 != 0) return LLVMFuzzerMutate(Data, Size, MaxSize);
	size_t tl = Size - tail;
	std::string text((const char *)Data, tl), ctl((const char *)Data + tl, tail);
	std::vector<std::string> L;
	{
		size_t a = 0;
		for (size_t i = 0; i <= text.size(); i++)
			if (i == text.size() || text[i] == '\n') { L.push_back(text.substr(a, i - a)); a = i + 1; }
	}
	static const char *NUMS[] = {"0", "-1", "1e308", "1e-308", "nan", "inf", "-inf", "99999999999999999999", "2147483648",
	                             "-2147483649", "1e-320", "1", "0.0", "-0", "1e999", "4294967296", "1e5", "100000"};
	unsigned op = xr(s) % 7;
	size_t n = L.size();
	switch (op) {
	case 0: // delete a line
		if (n > 1) L.erase(L.begin() + xr(s) % n);
		break;
	case 1: // duplicate a line
		{ size_t i = xr(s) % n; L.insert(L.begin() + i, L[i]); }
		break;
	case 2: // swap two lines
		{ size_t i = xr(s) % n, j = xr(s) % n; std::swap(L[i], L[j]); }
		break;
	case 3: // move a line elsewhere
		{ size_t i = xr(s) % n; std::string x = L[i]; L.erase(L.begin() + i); L.insert(L.begin() + xr(s) % (L.size() + 1), x); }
		break;
	case 4: // swap a token between two lines
	case 5: // replace a number
	case 6: // truncate a line
		{
			size_t i = xr(s) % n;
			std::string &l = L[i];
			// tokens
			std::vector<std::pair<size_t, size_t> > T;
			size_t k = 0;
			while (k < l.size()) {
				while (k < l.size() && (l[k] == ' ' || l[k] == '\t' || l[k] == ',')) k++;
				size_t a = k;
				while (k < l.size() && !(l[k] == ' ' || l[k] == '\t' || l[k] == ',')) k++;
				if (k > a) T.push_back(std::make_pair(a, k - a));
			}
			if (T.empty()) break;
			if (op == 6) { l.erase(T[xr(s) % T.size()].first); break; }
			if (op == 5) {
				std::vector<size_t> N;
				for (size_t t = 0; t < T.size(); t++) {
					char c = l[T[t].first];
					if ((c >= '0' && c <= '9') || ((c == '-' || c == '.' || c == '+') && T[t].second > 1 && l[T[t].first + 1] >= '0' && l[T[t].first + 1] <= '9')) N.push_back(t);
				}
				if (N.empty()) break;
				size_t t = N[xr(s) % N.size()];
				l.replace(T[t].first, T[t].second, NUMS[xr(s) % (sizeof NUMS / sizeof *NUMS)]);
				break;
			}
			size_t j = xr(s) % n;
			if (j == i) break;
			std::string &m = L[j];
			size_t a = m.find_first_not_of(" \t");
			if (a == std::string::npos) break;
			size_t b = m.find_first_of(" \t", a);
			if (b == std::string::npos) b = m.size();
			std::string tok2 = m.substr(a, b - a);
			size_t t = xr(s) % T.size();
			std::string tok1 = l.substr(T[t].first, T[t].second);
			l.replace(T[t].first, T[t].second, tok2);
			m.replace(a, b - a, tok1);
		}
		break;
	}
	std::string out;
	for (size_t i = 0; i < L.size(); i++) { out += L[i]; if (i + 1 < L.size()) out += '\n'; }
	if (out.size() + tail > MaxSize) out.resize(MaxSize > tail ? MaxSize - tail : 0);
	memcpy(Data, out.data(), out.size());
	memcpy(Data + out.size(), ctl.data(), tail);
	return out.size() + tail;
}
} // namespace c08
#endif
