// C10: exception-safe variants of the in-memory legs (symbols prefixed c10_).  Each returns a malloc'ed C string
// (free with shim_free); on an exception the string starts with "!!EXC " followed by what the engine wrote to its
// error stream.
#include <cstring>
#include <cstdlib>
#include <cfloat>
#include <string>
#include <sstream>
#include <iostream>
#include "IPhreeqc.hpp"
#include "Phreeqc.h"
#include "StorageBin.h"

namespace {
class C10IPhreeqc : public IPhreeqc {
public:
	Phreeqc *P() { return this->PhreeqcPtr; }
};
char *c10_dup(const std::string &s) {
	char *r = (char *)malloc(s.size() + 1);
	memcpy(r, s.c_str(), s.size() + 1);
	return r;
}
std::string c10_dump(Phreeqc *c) {
	cxxStorageBin sb(c->Get_phrq_io());
	c->phreeqc2cxxStorageBin(sb);
	std::ostringstream os;
	os.precision(DBL_DIG - 1);
	sb.dump_raw(os, 0);
	return os.str();
}
}

extern "C" {

// assignment (Phreeqc::operator= -> InternalCopy) into a default-constructed engine; dump of the copy
char *c10_assign_dump(void *vp) {
	C10IPhreeqc *p = (C10IPhreeqc *)vp;
	std::ostringstream err;
	std::streambuf *old = std::cerr.rdbuf(err.rdbuf());
	std::streambuf *oldo = std::cout.rdbuf(err.rdbuf());
	Phreeqc *c = 0;
	std::string out;
	try {
		c = new Phreeqc();
		*c = *p->P();
		out = c10_dump(c);
	} catch (...) {
		out = "!!EXC " + err.str();
	}
	std::cerr.rdbuf(old);
	std::cout.rdbuf(oldo);
	if (out.compare(0, 5, "!!EXC") != 0) delete c;   // a half-assigned engine is leaked rather than destroyed
	return c10_dup(out);
}

// copy construction (Phreeqc(const Phreeqc&) -> InternalCopy); dump of the copy
char *c10_copy_dump(void *vp) {
	C10IPhreeqc *p = (C10IPhreeqc *)vp;
	Phreeqc *c = 0;
	std::string out;
	try {
		c = new Phreeqc(*p->P());
		out = c10_dump(c);
		delete c;
	} catch (...) {
		out = "!!EXC";
	}
	return c10_dup(out);
}

} // extern "C"
