// C10: exception-safe in-memory legs (symbols prefixed c10_).  Each returns a malloc'ed C string (free with shim_free);
// when the engine throws, the string starts with "!!EXC".
// The state of an engine is rendered by walking its eleven entity maps in the order DUMP -all uses and calling each
// entity's dump_raw: unlike cxxStorageBin::dump_raw this also shows REACTION_PRESSURE.
#include <cstring>
#include <cstdlib>
#include <cfloat>
#include <string>
#include <sstream>
#include <iostream>
#include "IPhreeqc.hpp"
#include "Phreeqc.h"
#include "StorageBin.h"
#include "Solution.h"
#include "Exchange.h"
#include "GasPhase.h"
#include "cxxKinetics.h"
#include "PPassemblage.h"
#include "SSassemblage.h"
#include "Surface.h"
#include "cxxMix.h"
#include "Reaction.h"
#include "Temperature.h"
#include "Pressure.h"

namespace {
class C10IPhreeqc : public IPhreeqc {
public:
	Phreeqc *P() { return this->PhreeqcPtr; }
};
char *c10_dup(const std::string &s) {
	char *r = (char *)malloc(s.size() + 1);
	memcpy(r, s.c_str(), s.size() + 1);
	return r;
}
std::string c10_dump(Phreeqc *c) {
	std::ostringstream os;
	os.precision(DBL_DIG - 1);
	Utilities::Rxn_dump_raw(c->Get_Rxn_solution_map(), os, 0);
	Utilities::Rxn_dump_raw(c->Get_Rxn_pp_assemblage_map(), os, 0);
	Utilities::Rxn_dump_raw(c->Get_Rxn_exchange_map(), os, 0);
	Utilities::Rxn_dump_raw(c->Get_Rxn_surface_map(), os, 0);
	Utilities::Rxn_dump_raw(c->Get_Rxn_ss_assemblage_map(), os, 0);
	Utilities::Rxn_dump_raw(c->Get_Rxn_gas_phase_map(), os, 0);
	Utilities::Rxn_dump_raw(c->Get_Rxn_kinetics_map(), os, 0);
	Utilities::Rxn_dump_raw(c->Get_Rxn_mix_map(), os, 0);
	Utilities::Rxn_dump_raw(c->Get_Rxn_reaction_map(), os, 0);
	Utilities::Rxn_dump_raw(c->Get_Rxn_temperature_map(), os, 0);
	Utilities::Rxn_dump_raw(c->Get_Rxn_pressure_map(), os, 0);
	return os.str();
}
}

extern "C" {

// state of the instance itself
char *c10_raw_dump(void *vp) {
	C10IPhreeqc *p = (C10IPhreeqc *)vp;
	std::string out;
	try { out = c10_dump(p->P()); } catch (...) { out = "!!EXC"; }
	return c10_dup(out);
}

// assignment (Phreeqc::operator= -> InternalCopy) into a default-constructed engine; dump of the copy
char *c10_assign_dump(void *vp) {
	C10IPhreeqc *p = (C10IPhreeqc *)vp;
	std::ostringstream err;
	std::streambuf *old = std::cerr.rdbuf(err.rdbuf());
	std::streambuf *oldo = std::cout.rdbuf(err.rdbuf());
	Phreeqc *c = 0;
	std::string out;
	try {
		c = new Phreeqc();
		*c = *p->P();
		out = c10_dump(c);
	} catch (...) {
		out = "!!EXC " + err.str();
	}
	std::cerr.rdbuf(old);
	std::cout.rdbuf(oldo);
	if (out.compare(0, 5, "!!EXC") != 0) delete c;   // a half-assigned engine is leaked rather than destroyed
	return c10_dup(out);
}

// copy construction (Phreeqc(const Phreeqc&) -> InternalCopy); dump of the copy
char *c10_copy_dump(void *vp) {
	C10IPhreeqc *p = (C10IPhreeqc *)vp;
	Phreeqc *c = 0;
	std::string out;
	try {
		c = new Phreeqc(*p->P());
		out = c10_dump(c);
		delete c;
	} catch (...) {
		out = "!!EXC";
	}
	return c10_dup(out);
}

// storage-bin transfer: everything of src is copied into a cxxStorageBin (phreeqc2cxxStorageBin) and from there into
// dst (cxxStorageBin2phreeqc), an instance with the same database; returns dst's state
char *c10_storagebin_into(void *vsrc, void *vdst) {
	C10IPhreeqc *s = (C10IPhreeqc *)vsrc;
	C10IPhreeqc *d = (C10IPhreeqc *)vdst;
	std::string out;
	try {
		cxxStorageBin sb(s->P()->Get_phrq_io());
		s->P()->phreeqc2cxxStorageBin(sb);
		d->P()->cxxStorageBin2phreeqc(sb);
		out = c10_dump(d->P());
	} catch (...) {
		out = "!!EXC";
	}
	return c10_dup(out);
}

// what cxxStorageBin::dump_raw prints for the bin filled by phreeqc2cxxStorageBin (the bin's own rendering)
char *c10_storagebin_text(void *vp) {
	C10IPhreeqc *p = (C10IPhreeqc *)vp;
	std::string out;
	try {
		cxxStorageBin sb(p->P()->Get_phrq_io());
		p->P()->phreeqc2cxxStorageBin(sb);
		std::ostringstream os;
		os.precision(DBL_DIG - 1);
		sb.dump_raw(os, 0);
		out = os.str();
	} catch (...) {
		out = "!!EXC";
	}
	return c10_dup(out);
}

} // extern "C"
