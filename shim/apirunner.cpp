// C08 engines B and C: sanitizer-built runner that executes scripted API cases with the oracle of
// fuzz_common.h and prints one result line per case.
//
//   apirunner_asan <file|->          cases are read from the file (or stdin, answered one by one)
//
// case   := "CASE <id>\n" op* "ENDCASE\n"
// op     := "OP <name> <nbytes>\n" <nbytes of payload> "\n"
// ops    : strings <bits>            bit0 output, 1 log, 2 dump, 3 selected-output string switch
//          set_file <which>=payload  which: output log error dump selected   (payload = path)
//          file_on <which> payload   payload "0" / "1"
//          write_file payload="<path>\n<content>" | mkdir payload=path | chmod payload="<octal> <path>"
//          run_string | run_file(path) | accumulate(text, split in lines) | run_accumulated
//          load_db_file(path) | load_db_string(text) | load_small | reload_probe payload="heavy"|"light"
// "@S@" in any payload is replaced by the scratch directory, "@R@" by the source tree (C08_REPO, default /repo).  Every case starts from a new instance with the
// small database loaded; after every failed run/load the runner reloads the small database and compares the
// probe with the fresh answer (clause 4), then reloads again so that the next op sees a clean instance.
// result := "RES <id> ok nt=<0|1> cls=<class of each run/load op> rcs=<return codes>\n"
// A violated clause ends the process with "C08-ORACLE: ..." on stderr (see fuzz_common.h).
#include "fuzz_common.h"

using namespace c08;

static std::string expand(const std::string &s)
{
	std::string r = s;
	size_t p = 0;
	while ((p = r.find("@S@", p)) != std::string::npos) { r.replace(p, 3, g_scratch); p += g_scratch.size(); }
	const char *e = getenv("C08_REPO");
	std::string repo = e && *e ? e : "/repo";
	p = 0;
	while ((p = r.find("@R@", p)) != std::string::npos) { r.replace(p, 3, repo); p += repo.size(); }
	return r;
}

struct Op { std::string name, arg, payload; };

static bool read_line(FILE *f, std::string &l)
{
	l.clear();
	int c;
	while ((c = fgetc(f)) != EOF) {
		if (c == '\n') return true;
		l += (char)c;
	}
	return !l.empty();
}

static void set_file(FI *I, const std::string &which, const std::string &path)
{
	if (which == "output") I->SetOutputFileName(path.c_str());
	else if (which == "log") I->SetLogFileName(path.c_str());
	else if (which == "error") I->SetErrorFileName(path.c_str());
	else if (which == "dump") I->SetDumpFileName(path.c_str());
	else if (which == "selected") I->SetSelectedOutputFileName(path.c_str());
	else harness_error("set_file: unknown stream " + which);
}

static void file_on(FI *I, const std::string &which, bool v)
{
	if (which == "output") I->SetOutputFileOn(v);
	else if (which == "log") I->SetLogFileOn(v);
	else if (which == "error") I->SetErrorFileOn(v);
	else if (which == "dump") I->SetDumpFileOn(v);
	else if (which == "selected") I->SetSelectedOutputFileOn(v);
	else harness_error("file_on: unknown stream " + which);
}

struct Switches { unsigned strings; std::map<std::string, bool> on; };

static void apply(FI *I, const Switches &sw)
{
	set_strings(I, sw.strings & 1, sw.strings & 2, sw.strings & 4, sw.strings & 8);
	for (std::map<std::string, bool>::const_iterator it = sw.on.begin(); it != sw.on.end(); ++it) file_on(I, it->first, it->second);
}

static void run_case(const std::string &id, const std::vector<Op> &ops)
{
	for (size_t k = 0; k < ops.size(); k++) {
		const std::string &n = ops[k].name;
		if (n == "run_string" || n == "accumulate" || n == "load_db_string" || n == "write_file")
			if (const char *kt = known_trigger(ops[k].payload) ? known_trigger(ops[k].payload) : (n == "load_db_string" ? known_trigger_db(ops[k].payload) : 0)) {
				g_cnt[std::string("skipped_known_") + kt]++;
				printf("RES %s skipped known=%s\n", id.c_str(), kt);
				fflush(stdout);
				return;
			}
	}
	// new instance per case: file names and switches set by an earlier case must not leak into this one
	if (g_I) { FI *old = g_I; g_I = 0; g_inlib++; delete old; g_inlib--; }
	g_I = new FI;
	FI *I = g_I;
	load_small(I, "on a new instance");
	Switches sw;
	sw.strings = 0;
	std::string classes, rcs;
	bool nt = false;
	uint64_t h = 1469598103934665603ULL;
	for (size_t k = 0; k < ops.size(); k++) {
		const Op &o = ops[k];
		std::string pl = expand(o.payload);
		h = fnv((const uint8_t *)o.name.data(), o.name.size(), h);
		h = fnv((const uint8_t *)o.payload.data(), o.payload.size(), h);
		if (o.name == "strings") { sw.strings = (unsigned)atoi(pl.c_str()); continue; }
		if (o.name == "set_file") { set_file(I, o.arg, pl); continue; }
		if (o.name == "file_on") { sw.on[o.arg] = pl == "1"; continue; }
		if (o.name == "write_file") {
			size_t p = pl.find('\n');
			std::string path = pl.substr(0, p), content = p == std::string::npos ? "" : pl.substr(p + 1);
			FILE *f = fopen(path.c_str(), "wb");
			if (!f) harness_error("write_file: cannot create " + path);
			fwrite(content.data(), 1, content.size(), f);
			fclose(f);
			continue;
		}
		if (o.name == "mkdir") { mkdir(pl.c_str(), 0777); continue; }
		if (o.name == "chmod") { size_t p = pl.find(' '); chmod(pl.substr(p + 1).c_str(), (mode_t)strtol(pl.substr(0, p).c_str(), 0, 8)); continue; }
		if (o.name == "load_small") { load_small(I, "on request"); continue; }
		if (o.name == "reload_probe") {      // clause (4) on request (fault sequences: also after a call that succeeded)
			reload_and_probe(I, "fault sequence", pl == "heavy" ? 0 : h | (1u << 17));
			load_small(I, "after the probe");
			continue;
		}
		if (o.name == "accumulate") {
			std::string t(pl.c_str());
			size_t a = 0;
			for (size_t i = 0; i <= t.size(); i++)
				if (i == t.size() || t[i] == '\n') {
					std::string line = t.substr(a, i - a);
					a = i + 1;
					int r = guarded("AccumulateLine", [&] { return (int)I->AccumulateLine(line.c_str()); });
					if (r != 0) fail("accumulate_rc", "AccumulateLine returned non-zero");
				}
			continue;
		}
		// calls under the oracle
		bool is_load = false;
		int rc;
		std::string what = o.name;
		if (!g_fresh && (o.name == "run_string" || o.name == "run_file" || o.name == "run_accumulated")) {
			// a run after an earlier *successful* run of the same case (state carried on purpose)
		}
		apply(I, sw);
		bool planted = !contains(pl, "C08MARK") && o.name != "run_accumulated";
		if (planted) { I->AddError((std::string(MARK_E) + "\n").c_str()); I->AddWarning((std::string(MARK_W) + "\n").c_str()); }
		g_fresh = false;
		if (o.name == "run_string") rc = guarded("RunString", [&] { return I->RunString(pl.c_str()); });
		else if (o.name == "run_file") rc = guarded("RunFile", [&] { return I->RunFile(pl.c_str()); });
		else if (o.name == "run_accumulated") rc = guarded("RunAccumulated", [&] { return I->RunAccumulated(); });
		else if (o.name == "load_db_file") { is_load = true; rc = guarded("LoadDatabase", [&] { return I->LoadDatabase(pl.c_str()); }); }
		else if (o.name == "load_db_string") { is_load = true; std::string dbt = pregrow_line() + pl; rc = guarded("LoadDatabaseString", [&] { return I->LoadDatabaseString(dbt.c_str()); }); }
		else harness_error("unknown op " + o.name);
		CallInfo ci = check_after_call(I, what.c_str(), rc, is_load, planted);
		char b[32];
		snprintf(b, sizeof b, "%d", rc);
		rcs += (rcs.empty() ? "" : ",") + std::string(b);
		classes += (classes.empty() ? "" : ",") + std::string(is_load ? (ci.failed ? "load_fail" : "load_ok") : ci.cls);
		g_cnt[std::string("class_") + (is_load ? (ci.failed ? "load_fail" : "load_ok") : ci.cls)]++;
		if (!is_load && ci.reached && ci.keyword && count_nonblank_lines(pl.data(), pl.size()) >= 2) nt = true;
		const char *ks = ci.failed ? known_state_after_failure(I) : 0;
		if (ks) {
			g_cnt[std::string("skipped_known_") + ks]++;
			printf("RES %s skipped known=%s\n", id.c_str(), ks);
			fflush(stdout);
			return;      // the next case starts with a new instance
		}
		if (ci.failed) {
			reload_and_probe(I, what.c_str(), h);
			load_small(I, "after the probe");
		}
	}
	if (nt) note_nt_hash(h);
	g_cnt["cases"]++;
	printf("RES %s ok nt=%d cls=%s rcs=%s\n", id.c_str(), nt ? 1 : 0, classes.empty() ? "-" : classes.c_str(), rcs.empty() ? "-" : rcs.c_str());
	fflush(stdout);
}

int main(int argc, char **argv)
{
	if (argc < 2) { fprintf(stderr, "usage: apirunner_asan <casefile|->\n"); return 2; }
	init_common();
	{ FI *r = g_I; g_I = 0; delete r; }
	FILE *f = strcmp(argv[1], "-") == 0 ? stdin : fopen(argv[1], "rb");
	if (!f) harness_error(std::string("cannot open ") + argv[1]);
	printf("READY\n");
	fflush(stdout);
	std::string l, id;
	std::vector<Op> ops;
	bool in_case = false;
	while (read_line(f, l)) {
		if (l.compare(0, 5, "CASE ") == 0) { id = l.substr(5); ops.clear(); in_case = true; continue; }
		if (l == "ENDCASE") { if (in_case) run_case(id, ops); in_case = false; continue; }
		if (l.compare(0, 3, "OP ") == 0) {
			Op o;
			char name[64], arg[64];
			unsigned long n = 0;
			arg[0] = 0;
			// "OP name nbytes" or "OP name arg nbytes"
			std::istringstream is(l.substr(3));
			std::vector<std::string> t;
			std::string w;
			while (is >> w) t.push_back(w);
			if (t.size() == 2) { o.name = t[0]; n = strtoul(t[1].c_str(), 0, 10); }
			else if (t.size() == 3) { o.name = t[0]; o.arg = t[1]; n = strtoul(t[2].c_str(), 0, 10); }
			else harness_error("bad op line: " + l);
			(void)name;
			o.payload.resize(n);
			if (n && fread(&o.payload[0], 1, n, f) != n) harness_error("short payload");
			fgetc(f); // newline after the payload
			ops.push_back(o);
			continue;
		}
		if (l.empty()) continue;
		harness_error("bad line: " + l);
	}
	dump_stats();
	return 0;
}
