// C13: serialise the full observable state of one instance through one of the three bindings
// (0 = C functions by id, 1 = C++ methods, 2 = *F glue functions) so that Python can compare the
// texts with each other and with the reference model.  Also applies operations through a chosen binding.
#include <cstring>
#include <cstdlib>
#include <cstdio>
#include <string>
#include <sstream>
#include "IPhreeqc.hpp"
#include "IPhreeqc.h"
#include "IPhreeqc_interface_F.h"

namespace {

struct Acc {
	std::ostringstream os;
	std::string problem; // first F-glue contract violation (padding / length / index shift)
	void kv(const char *k, long v) { os << k << "=" << v << "\n"; }
	void ks(const char *k, const std::string &v) {
		os << k << "=" << v.size() << ":";
		// content hash (FNV-1a) plus a short prefix keeps the text small but bitwise-sensitive
		unsigned long long h = 1469598103934665603ULL;
		for (size_t i = 0; i < v.size(); ++i) { h ^= (unsigned char)v[i]; h *= 1099511628211ULL; }
		std::string pre = v.substr(0, 60);
		for (size_t i = 0; i < pre.size(); ++i) if ((unsigned char)pre[i] < 32) pre[i] = '|';
		os << std::hex << h << std::dec << ":" << pre << "\n";
	}
};

// call an F "string into buffer" function and check the padding contract; returns the string
template <typename F>
std::string fstr(Acc &a, const char *what, F f) {
	std::string out;
	for (int pass = 0; pass < 2; ++pass) {
		int cap = pass == 0 ? 4096 : 7;
		std::string buf((size_t)cap + 8, '#');
		int len = cap;
		f(&buf[0], &len);
		if (len < 0) { if (a.problem.empty()) a.problem = std::string(what) + ": negative length"; return out; }
		for (int q = cap; q < cap + 8; ++q)
			if (buf[q] != '#') { if (a.problem.empty()) a.problem = std::string(what) + ": wrote past the buffer"; }
		if (pass == 0) {
			if (len > cap) { out = buf.substr(0, cap); continue; }
			out = buf.substr(0, len);
			for (int q = len; q < cap; ++q)
				if (buf[q] != ' ') { if (a.problem.empty()) a.problem = std::string(what) + ": not blank padded"; break; }
		} else {
			// short buffer: first min(cap,len) characters, blank padded, full length reported
			if ((size_t)len != out.size() && out.size() < 4096) { if (a.problem.empty()) a.problem = std::string(what) + ": reported length depends on buffer size"; }
			for (int q = 0; q < cap; ++q) {
				char e = q < (int)out.size() ? out[q] : ' ';
				if (buf[q] != e) { if (a.problem.empty()) a.problem = std::string(what) + ": short-buffer content wrong"; break; }
			}
		}
	}
	return out;
}

} // namespace

extern "C" {

// binding: 0 C, 1 C++, 2 F.  Returns malloc'ed text (free with shim_free).  `settings_only` limits the text
// to what the reference model predicts (switches, names, current user number).
char *shim13_state(int id, void *cpp, int binding, int settings_only) {
	Acc a;
	IPhreeqc *p = (IPhreeqc *)cpp;
	int fid = id;
#define GI(name) (binding == 0 ? (long)::name(id) : binding == 1 ? (long)p->name() : (long)::name##F(&fid))
	a.kv("OutputFileOn", GI(GetOutputFileOn));
	a.kv("OutputStringOn", GI(GetOutputStringOn));
	a.kv("ErrorFileOn", GI(GetErrorFileOn));
	a.kv("ErrorStringOn", GI(GetErrorStringOn));
	a.kv("ErrorOn", GI(GetErrorOn));
	a.kv("LogFileOn", GI(GetLogFileOn));
	a.kv("LogStringOn", GI(GetLogStringOn));
	a.kv("DumpFileOn", GI(GetDumpFileOn));
	a.kv("DumpStringOn", GI(GetDumpStringOn));
	a.kv("SelectedOutputFileOn", GI(GetSelectedOutputFileOn));
	a.kv("SelectedOutputStringOn", GI(GetSelectedOutputStringOn));
	a.kv("CurrentSelectedOutputUserNumber", GI(GetCurrentSelectedOutputUserNumber));
#define GS(name) (binding == 0 ? std::string(::name(id)) : binding == 1 ? std::string(p->name()) : fstr(a, #name "F", [&](char *b, int *l) { ::name##F(&fid, b, l); }))
	a.ks("OutputFileName", GS(GetOutputFileName));
	a.ks("ErrorFileName", GS(GetErrorFileName));
	a.ks("LogFileName", GS(GetLogFileName));
	a.ks("DumpFileName", GS(GetDumpFileName));
	a.ks("SelectedOutputFileName", GS(GetSelectedOutputFileName));
	if (!settings_only) {
		a.kv("ComponentCount", GI(GetComponentCount));
		a.kv("SelectedOutputCount", GI(GetSelectedOutputCount));
		a.kv("SelectedOutputColumnCount", GI(GetSelectedOutputColumnCount));
		long rows = GI(GetSelectedOutputRowCount);
		if (binding == 2 && rows >= 0) rows += (GI(GetSelectedOutputColumnCount) > 0 || rows > 0) ? 1 : 0; // RowCountF = RowCount-1 when RowCount>0
		a.kv("SelectedOutputRowCount*", rows);
		long nso = GI(GetSelectedOutputCount);
		for (long k = -1; k <= nso; ++k) {
			int kk = (int)k, kf = (int)k + 1;
			long v = binding == 0 ? ::GetNthSelectedOutputUserNumber(id, kk) : binding == 1 ? p->GetNthSelectedOutputUserNumber(kk) : ::GetNthSelectedOutputUserNumberF(&fid, &kf);
			a.kv("NthSelectedOutputUserNumber", v);
		}
		long nc = GI(GetComponentCount);
		for (long k = -1; k <= nc; ++k) {
			int kk = (int)k, kf = (int)k + 1;
			std::string s = binding == 0 ? std::string(::GetComponent(id, kk)) : binding == 1 ? std::string(p->GetComponent(kk)) : fstr(a, "GetComponentF", [&](char *b, int *l) { ::GetComponentF(&fid, &kf, b, l); });
			a.ks("Component", s);
		}
		// line views of the five streams: counts and every line (hashed)
#define LINES(tag, cnt, line) { long n = GI(cnt); a.kv(tag "LineCount", n); \
		for (long k = -1; k <= n; ++k) { int kk = (int)k, kf = (int)k + 1; \
			std::string s = binding == 0 ? std::string(::line(id, kk)) : binding == 1 ? std::string(p->line(kk)) : fstr(a, #line "F", [&](char *b, int *l) { ::line##F(&fid, &kf, b, l); }); \
			a.ks(tag "Line", s); } }
		LINES("Output", GetOutputStringLineCount, GetOutputStringLine)
		LINES("Log", GetLogStringLineCount, GetLogStringLine)
		LINES("Dump", GetDumpStringLineCount, GetDumpStringLine)
		LINES("Error", GetErrorStringLineCount, GetErrorStringLine)
		LINES("Warning", GetWarningStringLineCount, GetWarningStringLine)
		LINES("SelectedOutput", GetSelectedOutputStringLineCount, GetSelectedOutputStringLine)
		if (binding != 2) { // whole strings exist in C and C++ only
#define WS(name) (binding == 0 ? std::string(::name(id)) : std::string(p->name()))
			a.ks("OutputString", WS(GetOutputString));
			a.ks("LogString", WS(GetLogString));
			a.ks("DumpString", WS(GetDumpString));
			a.ks("ErrorString", WS(GetErrorString));
			a.ks("WarningString", WS(GetWarningString));
			a.ks("SelectedOutputString", WS(GetSelectedOutputString));
		}
	}
	if (!a.problem.empty()) a.os << "FPROBLEM=" << a.problem << "\n";
	std::string s = a.os.str();
	char *r = (char *)malloc(s.size() + 1);
	memcpy(r, s.c_str(), s.size() + 1);
	return r;
}

// apply a setter / call through a binding.  kind 'i' = int argument, 's' = string argument (may be NULL), 'v' = no argument
int shim13_call(int id, void *cpp, int binding, const char *name, int iarg, const char *sarg) {
	IPhreeqc *p = (IPhreeqc *)cpp;
	int fid = id;
#define EQN(a) (strcmp(name, a) == 0)
#define SETI(fn) if (EQN(#fn)) { if (binding == 0) return (int)::fn(id, iarg); if (binding == 1) { p->fn(iarg != 0); return 0; } return (int)::fn##F(&fid, &iarg); }
	SETI(SetOutputFileOn) SETI(SetOutputStringOn) SETI(SetErrorFileOn) SETI(SetErrorStringOn) SETI(SetErrorOn)
	SETI(SetLogFileOn) SETI(SetLogStringOn) SETI(SetDumpFileOn) SETI(SetDumpStringOn)
	SETI(SetSelectedOutputFileOn) SETI(SetSelectedOutputStringOn)
	if (EQN("SetCurrentSelectedOutputUserNumber")) {
		if (binding == 0) return (int)::SetCurrentSelectedOutputUserNumber(id, iarg);
		if (binding == 1) return (int)p->SetCurrentSelectedOutputUserNumber(iarg);
		return (int)::SetCurrentSelectedOutputUserNumberF(&fid, &iarg);
	}
#define SETS(fn) if (EQN(#fn)) { if (binding == 0) return (int)::fn(id, sarg); if (binding == 1) { p->fn(sarg); return 0; } return (int)::fn##F(&fid, (char *)sarg); }
	SETS(SetOutputFileName) SETS(SetErrorFileName) SETS(SetLogFileName) SETS(SetDumpFileName) SETS(SetSelectedOutputFileName)
#define CALLS(fn) if (EQN(#fn)) { if (binding == 0) return (int)::fn(id, sarg); if (binding == 1) return (int)p->fn(sarg); return (int)::fn##F(&fid, (char *)sarg); }
	CALLS(AccumulateLine) CALLS(AddError) CALLS(AddWarning) CALLS(LoadDatabase) CALLS(LoadDatabaseString) CALLS(RunFile) CALLS(RunString)
	if (EQN("RunAccumulated")) { if (binding == 0) return ::RunAccumulated(id); if (binding == 1) return p->RunAccumulated(); return ::RunAccumulatedF(&fid); }
	if (EQN("ClearAccumulatedLines")) { if (binding == 0) return (int)::ClearAccumulatedLines(id); if (binding == 1) { p->ClearAccumulatedLines(); return 0; } return (int)::ClearAccumulatedLinesF(&fid); }
	if (EQN("Create")) { if (binding == 2) return ::CreateIPhreeqcF(); return ::CreateIPhreeqc(); }
	if (EQN("Destroy")) { if (binding == 2) return ::DestroyIPhreeqcF(&fid); return (int)::DestroyIPhreeqc(id); }
	return -2147483647;
}

} // extern "C"
