#!/usr/bin/env python3-vt
# C08 material (found while developing C07): ex4 followed by ex21 through RunString on one instance (no load in between) kills the process; reduced by line-wise
# delta debugging to the texts below (call 1 is what is left of ex4, call 2 what is left of ex21).  The full examples crash as well:
# pass --full to run /repo/phreeqc3-examples/ex4 and ex21 (INCLUDE$ expanded) instead.
# usage: PYTHONPATH=/verif python3-vt exseq-ex4-ex21.py [--full] [asan]
import sys, os
sys.path.insert(0, "/verif")
from vp import lib
here = os.path.dirname(os.path.abspath(__file__))
variant = "asan" if "asan" in sys.argv else "rel"
wd = os.path.join(lib.BUILD, "scratch", "crash-repro")   # the library may write error.inp etc. into the cwd
os.makedirs(wd, exist_ok=True)
os.chdir(wd)
calls = [open(os.path.join(here, "exseq-ex4-ex21.call%d.txt" % (i + 1)), encoding="latin-1").read() for i in range(2)]
if "--full" in sys.argv and 'a' == "a":
    from vp import c07_texts as T
    calls = [T.example_text("ex4"), T.example_text("ex21")]
print("LoadDatabase(phreeqc.dat)", flush=True)
I = lib.fresh("phreeqc.dat", variant=variant)
for i, t in enumerate(calls):
    print("RunString(call %d, %d lines) ..." % (i + 1, len(t.splitlines())), flush=True)
    rc = I.run_string(t)
    print("  returned %d %s" % (rc, I.errors()[:200].replace("\n", " | ")), flush=True)
print("survived", flush=True)
