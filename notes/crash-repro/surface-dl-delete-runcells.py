#!/usr/bin/env python3-vt
# C08 material (found while developing C07): found as: mix_copy probe, then SURFACE 1-4 -diffuse_layer, then DELETE -solution 1, then RUN_CELLS -cells 0-8 on a brand-new instance;
# reduced by line-wise delta debugging to the three calls below (the DELETE is not needed).
# --full runs the original four calls (surface-dl-delete-runcells.full1..4.txt), every one of which returns 0 before the last dies.
# usage: PYTHONPATH=/verif python3-vt surface-dl-delete-runcells.py [--full] [asan]
import sys, os
sys.path.insert(0, "/verif")
from vp import lib
here = os.path.dirname(os.path.abspath(__file__))
variant = "asan" if "asan" in sys.argv else "rel"
wd = os.path.join(lib.BUILD, "scratch", "crash-repro")   # the library may write error.inp etc. into the cwd
os.makedirs(wd, exist_ok=True)
os.chdir(wd)
calls = [open(os.path.join(here, "surface-dl-delete-runcells.call%d.txt" % (i + 1)), encoding="latin-1").read() for i in range(3)]
if "--full" in sys.argv:   # the sequence as found: four calls that all return 0 until the last one dies
    calls = [open(os.path.join(here, "surface-dl-delete-runcells.full%d.txt" % (i + 1)), encoding="latin-1").read() for i in range(4)]
print("LoadDatabase(phreeqc.dat)", flush=True)
I = lib.fresh("phreeqc.dat", variant=variant)
for i, t in enumerate(calls):
    print("RunString(call %d, %d lines) ..." % (i + 1, len(t.splitlines())), flush=True)
    rc = I.run_string(t)
    print("  returned %d %s" % (rc, I.errors()[:200].replace("\n", " | ")), flush=True)
print("survived", flush=True)
