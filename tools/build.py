#!/usr/bin/env python3
"""Content-hashed, parallel, incremental builds of /repo/src for the verification checks.

usage: build.py <variant> [target ...]      variants: rel asan tsan
Prints nothing on success unless -v; exit status != 0 on a compile/link error (the log is
printed).  Builds are serialised per variant with flock, so concurrent checks are safe.

An object is reused iff the sha256 of its source, of every file the compiler reported as a
dependency (-MMD) and of the flag string are unchanged -- content, not mtime, so a patched or
restored tree with odd time stamps is rebuilt correctly.
"""
import sys, os, re, json, hashlib, subprocess, fcntl, shlex, time
from concurrent.futures import ThreadPoolExecutor

REPO = os.environ.get("VERIF_REPO", "/repo")
VERIF = os.path.dirname(os.path.dirname(os.path.abspath(__file__)))
BUILD = os.environ.get("VERIF_BUILD") or os.path.join(VERIF, "build")
GUARD = "IPHREEQC_VERIF"

INC = ["src", "src/phreeqcpp", "src/phreeqcpp/common", "src/phreeqcpp/PhreeqcKeywords"]
DEFS = ["-DSWIG_SHARED_OBJ", "-DUSE_PHRQ_ALLOC", "-DNDEBUG", "-D" + GUARD]

VARIANTS = {
    "rel": dict(cxx="g++", flags=["-std=gnu++17", "-O2", "-g0", "-fPIC", "-w"], ldflags=[]),
    "asan": dict(cxx="clang++",
                 flags=["-std=gnu++17", "-O1", "-g", "-fPIC", "-w", "-fno-omit-frame-pointer",
                        "-fsanitize=fuzzer-no-link,address,undefined",
                        "-fsanitize-recover=undefined"],
                 ldflags=["-fsanitize=address,undefined"]),
    "tsan": dict(cxx="clang++",
                 flags=["-std=gnu++17", "-O1", "-g", "-fPIC", "-w", "-fsanitize=thread"],
                 ldflags=["-fsanitize=thread"]),
}

# executables / shared objects per variant: name -> (sources under /verif/shim, extra link flags, kind)
TARGETS = {
    "rel": {
        "libiphreeqc_rel.so": (["shim*.cpp"], ["-shared"], "so"),  # every shim/shim*.cpp is linked in
        "mt_rel": (["mt_harness.cpp"], ["-pthread"], "exe"),
    },
    "asan": {
        "fuzz_run": (["fuzz_run.cpp"], ["-fsanitize=fuzzer,address,undefined", "-Wl,--wrap=exit", "-Wl,--wrap=_exit"], "exe"),
        "fuzz_db": (["fuzz_db.cpp"], ["-fsanitize=fuzzer,address,undefined", "-Wl,--wrap=exit", "-Wl,--wrap=_exit"], "exe"),
        "apirunner_asan": (["apirunner.cpp"], ["-fsanitize=address,undefined", "-Wl,--wrap=exit", "-Wl,--wrap=_exit"], "exe"),
    },
    "tsan": {
        "mt_tsan": (["mt_harness.cpp"], ["-fsanitize=thread", "-pthread"], "exe"),
    },
}


def sha_file(path, cache={}):
    try:
        st = os.stat(path)
    except OSError:
        return "missing"
    key = (path, st.st_mtime_ns, st.st_size)
    if key in cache:
        return cache[key]
    with open(path, "rb") as f:
        h = hashlib.sha256(f.read()).hexdigest()
    cache[key] = h
    return h


def repo_sources():
    txt = open(os.path.join(REPO, "CMakeLists.txt")).read()
    srcs = []
    for m in re.finditer(r"\bsrc/[\w/.]+\.(?:cpp|cxx|c)\b", txt):
        s = m.group(0)
        base = os.path.basename(s)
        if base.startswith("fwrap") or base in ("class_main.cpp", "pp_sys.cpp"):
            continue
        if s not in srcs and os.path.exists(os.path.join(REPO, s)):
            srcs.append(s)
    # be robust to a source file added to the tree but not parsed from CMake
    return srcs


def parse_deps(dfile):
    try:
        txt = open(dfile).read()
    except OSError:
        return None
    txt = txt.replace("\\\n", " ")
    parts = txt.split(":", 1)
    if len(parts) < 2:
        return None
    return [p for p in shlex.split(parts[1]) if p]


def compile_one(variant, src_abs, objdir, name, extra_inc=()):
    v = VARIANTS[variant]
    flags = v["flags"] + DEFS + ["-I" + os.path.join(REPO, i) for i in INC] + ["-I" + i for i in extra_inc]
    cmd_flags = " ".join(flags)
    obj = os.path.join(objdir, name + ".o")
    meta = os.path.join(objdir, name + ".json")
    # valid?
    try:
        m = json.load(open(meta))
        if m["flags"] == cmd_flags and m["cxx"] == v["cxx"] and os.path.exists(obj):
            ok = all(sha_file(p) == h for p, h in m["deps"].items())
            if ok:
                return (name, obj, False, "")
    except Exception:
        pass
    dfile = os.path.join(objdir, name + ".d")
    cmd = [v["cxx"], "-x", "c++"] + flags + ["-MMD", "-MF", dfile, "-c", src_abs, "-o", obj]
    p = subprocess.run(cmd, capture_output=True, text=True)
    if p.returncode != 0:
        try:
            os.unlink(meta)
        except OSError:
            pass
        return (name, None, True, " ".join(cmd) + "\n" + p.stdout + p.stderr)
    deps = parse_deps(dfile) or [src_abs]
    if src_abs not in deps:
        deps.append(src_abs)
    deps = [d for d in deps if not d.startswith("/usr/")]
    json.dump({"flags": cmd_flags, "cxx": v["cxx"], "deps": {d: sha_file(d) for d in deps}}, open(meta, "w"))
    return (name, obj, True, "")


def build(variant, want=None, verbose=False):
    t0 = time.time()
    vdir = os.path.join(BUILD, variant)
    objdir = os.path.join(vdir, "obj")
    os.makedirs(objdir, exist_ok=True)
    lock = open(os.path.join(vdir, ".lock"), "w")
    fcntl.flock(lock, fcntl.LOCK_EX)
    try:
        srcs = repo_sources()
        jobs = []
        for s in srcs:
            name = s.replace("/", "_")
            jobs.append((os.path.join(REPO, s), name, ()))
        targets = TARGETS[variant]
        if want:
            targets = {k: v for k, v in targets.items() if k in want}
        shim_srcs = []
        import glob as _glob
        expanded = {}
        for t, (ss, ld, kind) in targets.items():
            ex_ = []
            for s in ss:
                if "*" in s:
                    ex_ += sorted(os.path.basename(x) for x in _glob.glob(os.path.join(VERIF, "shim", s)))
                else:
                    ex_.append(s)
            if not ex_ or not all(os.path.exists(os.path.join(VERIF, "shim", s)) for s in ex_):
                if want:
                    sys.stderr.write("BUILD FAILED: sources of target %s are missing\n" % t)
                    return 2
                continue  # target not written yet
            expanded[t] = (ex_, ld, kind)
            for s in ex_:
                if s not in shim_srcs:
                    shim_srcs.append(s)
        targets = expanded
        for s in shim_srcs:
            jobs.append((os.path.join(VERIF, "shim", s), "shim_" + s, (os.path.join(VERIF, "shim"),)))
        results = {}
        errs = []
        ncomp = 0
        with ThreadPoolExecutor(max_workers=int(os.environ.get("VERIF_BUILD_JOBS", "16"))) as ex:
            futs = [ex.submit(compile_one, variant, sa, objdir, n, inc) for sa, n, inc in jobs]
            for f in futs:
                name, obj, did, log = f.result()
                if obj is None:
                    errs.append(log)
                else:
                    results[name] = obj
                    ncomp += 1 if did else 0
        if errs:
            sys.stderr.write("BUILD FAILED (%s)\n" % variant + "\n".join(errs)[-6000:] + "\n")
            return 2
        libobjs = [results[s.replace("/", "_")] for s in srcs]
        v = VARIANTS[variant]
        # static archive of the library objects (relinked when any object changed)
        stamp = hashlib.sha256(("\n".join(sorted(libobjs)) + "".join(sha_file(o) for o in libobjs)).encode()).hexdigest()
        for t, (ss, ld, kind) in targets.items():
            out = os.path.join(vdir, t)
            tobjs = [results["shim_" + s] for s in ss]
            tstamp = hashlib.sha256((stamp + "".join(sha_file(o) for o in tobjs) + " ".join(ld)).encode()).hexdigest()
            sfile = out + ".stamp"
            if os.path.exists(out) and os.path.exists(sfile) and open(sfile).read() == tstamp:
                continue
            cmd = [v["cxx"]] + [f for f in v["flags"] if f.startswith("-fsanitize") and "fuzzer" not in f] + ld + ["-o", out + ".tmp"] + tobjs + libobjs + ["-lm", "-lpthread"]
            p = subprocess.run(cmd, capture_output=True, text=True)
            if p.returncode != 0:
                sys.stderr.write("LINK FAILED %s\n%s\n" % (t, (p.stdout + p.stderr)[-4000:]))
                return 2
            os.replace(out + ".tmp", out)
            open(sfile, "w").write(tstamp)
        if verbose:
            sys.stderr.write("build %s: %d compiled, %.1fs\n" % (variant, ncomp, time.time() - t0))
        return 0
    finally:
        fcntl.flock(lock, fcntl.LOCK_UN)
        lock.close()


if __name__ == "__main__":
    args = [a for a in sys.argv[1:] if not a.startswith("-")]
    verbose = "-v" in sys.argv
    if not args:
        print(__doc__)
        sys.exit(2)
    sys.exit(build(args[0], args[1:] or None, verbose))
