#!/usr/bin/env python3
"""Writes MANIFEST.json from the per-property module constants (single source of truth)."""
import json, os, sys, importlib
V = os.path.dirname(os.path.dirname(os.path.abspath(__file__)))
sys.path.insert(0, V)
ALL = ["C%02d" % i for i in range(1, 21)]
checks, na = [], []
NA_REASONS = json.load(open(os.path.join(V, "tools", "not_applicable.json"))) if os.path.exists(os.path.join(V, "tools", "not_applicable.json")) else {}
READY = json.load(open(os.path.join(V, "tools", "ready.json")))
for pid in ALL:
    path = os.path.join(V, "vp", "props", pid.lower() + ".py")
    if not os.path.exists(path) or pid in NA_REASONS or pid not in READY:
        na.append({"property_id": pid, "reason": NA_REASONS.get(pid, "check not built yet in this session (work in progress); no claim is made")})
        continue
    src = open(path).read()
    ns = {}
    # read constants without importing hypothesis etc.
    import ast
    tree = ast.parse(src)
    for node in tree.body:
        if isinstance(node, ast.Assign) and len(node.targets) == 1 and isinstance(node.targets[0], ast.Name):
            if node.targets[0].id in ("ID", "LEVEL", "RULE", "ASSUMPTIONS", "TECHNIQUE", "LEVEL_TEXT", "DESIGN_REF", "ENGINE"):
                try:
                    ns[node.targets[0].id] = ast.literal_eval(node.value)
                except Exception:
                    pass
    checks.append({
        "property_id": pid,
        "quick_cmd": "./check %s quick" % pid,
        "thorough_cmd": "./check %s thorough" % pid,
        "evidence_file": "/verif/evidence/%s.json" % pid,
        "replay_cmd_template": "./check %s --replay {path}" % pid,
        "engine": {"C08": "libfuzzer+hypothesis", "C06": "hypothesis+tsan-harness"}.get(pid, ns.get("ENGINE", "hypothesis")),
        "level_claimed": {"category": ns.get("LEVEL", "exploration"),
                          "text": ns.get("LEVEL_TEXT", "Generated-input search against an explicit oracle; reports what was explored, never absence."),
                          "design_ref": ns.get("DESIGN_REF", "DESIGN.md section 5, " + pid)},
        "level_note": "; ".join(ns.get("ASSUMPTIONS", [])),
        "technique": ns.get("TECHNIQUE", "property-based testing (Hypothesis) with an explicit oracle"),
    })
m = {
    "version": 1,
    "setup_cmd": "bash tools/setup.sh",
    "hooks": {"guard": "IPHREEQC_VERIF",
              "enable": "tools/build.py passes -DIPHREEQC_VERIF on every compile line of /repo/src (no source hook is currently needed; all observation goes through the public API and a C++ shim in /verif/shim that subclasses IPhreeqc)",
              "baseline_off_cmd": "cmake --build /repo/_build -j16 && ctest --test-dir /repo/_build --timeout 900",
              "source_commits": [], "add_only": True},
    "engines": [
        {"name": "hypothesis", "path": "vp/core.py", "serves_properties": [c["property_id"] for c in checks if "hypothesis" in c["engine"]],
         "kind_free_text": "Hypothesis 6.168 (python3-vt), sharded over processes, seeded from VERIF_SEED; cases journalled and replayed without Hypothesis"},
        {"name": "libfuzzer", "path": "shim/fuzz_run.cpp", "serves_properties": [c["property_id"] for c in checks if "libfuzzer" in c["engine"]],
         "kind_free_text": "clang libFuzzer + ASan + UBSan targets (fuzz_run, fuzz_db) and the sanitizer-built scripted runner apirunner_asan, semantic oracle inside the target (shim/fuzz_common.h)"},
        {"name": "tsan-harness", "path": "shim/mt_harness.cpp", "serves_properties": [c["property_id"] for c in checks if "tsan" in c["engine"]],
         "kind_free_text": "C++ thread harness executing Hypothesis-generated schedules under ThreadSanitizer (mt_tsan) and natively (mt_rel)"},
    ],
    "checks": checks,
    "not_applicable": na,
    "notes": "All checks rebuild /repo's working tree through tools/build.py (content-hashed). Known findings: known_findings.json. Design: DESIGN.md.",
}
json.dump(m, open(os.path.join(V, "MANIFEST.json"), "w"), indent=1)
print("checks:", [c["property_id"] for c in checks], "na:", len(na))
