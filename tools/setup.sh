#!/bin/bash
# MANIFEST.setup_cmd: build all variants of /repo once (offline; uses only installed compilers)
cd "$(dirname "$0")/.."
set -e
python3 tools/build.py rel -v
if [ -f shim/fuzz_run.cpp ]; then python3 tools/build.py asan -v; fi
if [ -f shim/mt_harness.cpp ]; then python3 tools/build.py tsan -v; fi
echo setup-ok
