#!/bin/bash
# Scratch copies of /repo for sensitivity experiments (never inside /repo or /verif).
#   scratch.sh new  <name>            -> git worktree of /repo HEAD at /var/tmp/vps/<name>
#   scratch.sh suite <name>           -> configure+build+ctest (serial) of that tree; prints summary, exit 0 iff all pass
#   scratch.sh check <name> <ID> [tier] [seed] -> run a /verif check against that tree (own build dir, own output dir)
#   scratch.sh rm   <name>            -> remove worktree and all build output
set -u
ROOT=/var/tmp/vps
cmd=$1; name=$2
WT=$ROOT/$name
case $cmd in
new)
  mkdir -p $ROOT
  git -C /repo worktree add --detach -f $WT HEAD >/dev/null 2>&1 || { echo "worktree add failed"; exit 1; }
  echo $WT ;;
suite)
  cmake -S $WT -B $WT/_build -G Ninja -DCMAKE_BUILD_TYPE=RelWithDebInfo -DFETCHCONTENT_SOURCE_DIR_GOOGLETEST=/usr/src/googletest \
     -DFETCHCONTENT_FULLY_DISCONNECTED=ON -DBUILD_TESTING=ON -DIPHREEQC_ENABLE_MODULE=ON -DCMAKE_CXX_FLAGS="-Wno-error" > $WT/_build.cfg.log 2>&1 || { tail -20 $WT/_build.cfg.log; echo CONFIGURE-FAILED; exit 2; }
  cmake --build $WT/_build -j${JOBS:-16} > $WT/_build.log 2>&1 || { grep -m5 -A5 "error" $WT/_build.log; echo BUILD-FAILED; exit 2; }
  (cd $WT/_build && ctest --timeout 900 > $WT/_ctest.log 2>&1)
  tail -12 $WT/_ctest.log | grep -v "^$"
  grep -q "100% tests passed" $WT/_ctest.log ;;
check)
  id=$3; tier=${4:-quick}; seed=${5:-1}
  cd /verif && VERIF_REPO=$WT VERIF_BUILD=$WT/_vbuild VERIF_OUT=$WT/_vout VERIF_SEED=$seed ./check $id $tier ;;
rm)
  git -C /repo worktree remove --force $WT 2>/dev/null; rm -rf $WT; git -C /repo worktree prune; echo removed ;;
esac
