#!/usr/bin/env python3
"""Writes seeded/<ID>-k/meta.json from tools/seed_results.json (kept by hand: what each seeded change needs and which check caught it)."""
import json, os
V = os.path.dirname(os.path.dirname(os.path.abspath(__file__)))
R = json.load(open(os.path.join(V, "tools", "seed_results.json")))
for sid, v in R.items():
    d = os.path.join(V, "seeded", sid)
    if not os.path.isdir(d):
        continue
    m = {"property": sid.split("-")[0], "breaks": v["breaks"], "needs": v["needs"],
         "source": "independent breaker sub-agent given only the property text and a scratch worktree under /tmp/seed (nothing from /verif)",
         "confirmed": "tools/seed_verify.sh seeded/%s: " % sid + (open(os.path.join(d, "verify.log")).read().strip() if os.path.exists(os.path.join(d, "verify.log")) else v.get("confirmed", "see notes.md")),
         "ran": v["ran"], "detected_by": v["detected_by"]}
    for k in ("history", "replay"):
        if k in v:
            m[k] = v[k]
    json.dump(m, open(os.path.join(d, "meta.json"), "w"), indent=1)
print(len(R), "meta files")
