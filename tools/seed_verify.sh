#!/bin/bash
# Confirms a seeded change: tools/seed_verify.sh <dir with patch.diff + demo.cpp> [demo args...]
#  1. clean worktree /var/tmp/vps/seedverify (incremental cmake build kept between calls) builds; demo exits 0
#  2. patch applies, tree builds, ctest (serial) passes completely, demo exits non-zero
# Prints a one-line verdict; exit 0 iff all of it holds.  The worktree is left clean.
set -u
D=$(realpath "$1"); shift
WT=${SEEDVERIFY_WT:-/var/tmp/vps/seedverify}
J=${JOBS:-8}
if [ ! -d $WT ]; then mkdir -p /var/tmp/vps; git -C /repo worktree add --detach -f $WT HEAD >/dev/null 2>&1 || exit 3; fi
git -C $WT checkout -q --detach $(git -C /repo rev-parse HEAD) 2>/dev/null; git -C $WT checkout -- . ; git -C $WT clean -fdq -e _build
conf() { cmake -S $WT -B $WT/_build -G Ninja -DCMAKE_BUILD_TYPE=RelWithDebInfo -DBUILD_TESTING=ON -DFETCHCONTENT_SOURCE_DIR_GOOGLETEST=/usr/src/googletest -DFETCHCONTENT_FULLY_DISCONNECTED=ON -DIPHREEQC_ENABLE_MODULE=ON > $WT/_cfg.log 2>&1; }
bld() { cmake --build $WT/_build -j$J > $WT/_bld.log 2>&1; }
demo() { # $1 = tag
  local src=$D/demo.cpp; local cc="g++ -std=gnu++17"
  [ -f $D/demo.c ] && { src=$D/demo.c; cc="gcc"; }
  LIB=$(ls $WT/_build/libIPhreeqc*.a $WT/_build/libIPhreeqc*.so 2>/dev/null | head -1)
  $cc -I$WT/src -I$WT/src/phreeqcpp -I$WT/src/phreeqcpp/common -I$WT/src/phreeqcpp/PhreeqcKeywords $src $LIB -lstdc++ -lm -lpthread -o $WT/_demo_$1 > $WT/_demo_$1.clog 2>&1 || { echo "demo does not compile ($1)"; tail -5 $WT/_demo_$1.clog; return 99; }
  (cd $D && timeout 600 $WT/_demo_$1 $WT "$@" > $WT/_demo_$1.out 2>&1); return $?
}
[ -d $WT/_build ] || conf || { echo "VERDICT configure-failed"; exit 2; }
bld || { echo "VERDICT original-build-failed"; exit 2; }
demo orig; r0=$?
git -C $WT apply $D/patch.diff || { echo "VERDICT patch-does-not-apply"; exit 2; }
bld || { tail -20 $WT/_bld.log; git -C $WT checkout -- .; echo "VERDICT patched-build-failed"; exit 2; }
(cd $WT/_build && ctest --timeout 900 > $WT/_ctest.log 2>&1); rt=$?
summ=$(grep "tests passed" $WT/_ctest.log)
demo patched; r1=$?
git -C $WT checkout -- .
echo "VERDICT demo_orig=$r0 demo_patched=$r1 ctest_rc=$rt [$summ] repo_head=$(git -C /repo rev-parse --short=8 HEAD)" | tee $D/verify.log
tail -3 $WT/_demo_patched.out | cut -c1-300
[ $r0 = 0 ] && [ $r1 != 0 ] && [ $r1 != 99 ] && [ $rt = 0 ]
