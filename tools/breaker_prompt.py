#!/usr/bin/env python3
"""Prints the prompt for an independent breaker sub-agent: tools/breaker_prompt.py C05 /tmp/seed/c05 2"""
import json, sys, os
V = os.path.dirname(os.path.dirname(os.path.abspath(__file__)))
pid, wt, n = sys.argv[1], sys.argv[2], sys.argv[3]
p = [json.loads(l) for l in open(os.path.join(V, "properties.jsonl")) if json.loads(l)["id"] == pid][0]
t = open(os.path.join(V, "notes", "BREAKER_TEMPLATE.md")).read().split("\n", 2)[2]
print(t.replace("{WT}", wt).replace("{N}", n).replace("{ID}", pid).replace("{TITLE}", p["title"])
      .replace("{STATEMENT}", p["statement"]).replace("{QUANT}", p["quantifier"]["text"]))
