#!/usr/bin/env python3
"""Round-2 prompt: same as breaker_prompt.py plus a list of mechanisms already used in round 1 (to be avoided)."""
import json, sys, os, subprocess
V = os.path.dirname(os.path.dirname(os.path.abspath(__file__)))
pid, wt, n = sys.argv[1], sys.argv[2], sys.argv[3]
base = subprocess.check_output([sys.executable, os.path.join(V, "tools", "breaker_prompt.py"), pid, wt, n]).decode()
base = base.replace("seeded/%s-k/" % pid, "seeded/%s-(k+4)/" % pid).replace("{WT}/seeded", wt + "/seeded")
r = json.load(open(os.path.join(V, "tools", "seed_results.json")))
used = []
for k in ("1", "2", "3", "4"):
    sid = "%s-%s" % (pid, k)
    if sid in r:
        used.append("- " + r[sid]["needs"])
    else:
        m = os.path.join(V, "seeded", sid, "meta.json")
        if os.path.exists(m):
            used.append("- " + json.load(open(m))["needs"])
print(base)
print("\nNumber your two changes %s-5 and %s-6 (directories seeded/%s-5, seeded/%s-6).\n" % (pid, pid, pid, pid))
print("Earlier rounds already produced changes for this property with the following triggers; do NOT repeat these mechanisms or close variants of them, pick different code areas and different kinds of trigger:\n" + "\n".join(used))
print("\nThe library built by that configuration is the static archive _build/libIPhreeqcrwd.a: link demos with that file. The machine is shared: use -j4.")
