#!/bin/bash
# Runs a /verif check against a seeded change in a scratch worktree (never /repo while other jobs use it):
#   tools/seed_check.sh <seed dir with patch.diff> <ID> [tier] [seed] [slot]
# The worktree /var/tmp/vps/seedchk<slot> and its build dir are kept between calls (incremental); `tools/scratch.sh rm seedchk<slot>` removes them.
set -u
D=$(realpath "$1"); id=$2; tier=${3:-quick}; seed=${4:-1}; slot=${5:-0}
WT=/var/tmp/vps/seedchk$slot
if [ ! -d $WT ]; then mkdir -p /var/tmp/vps; git -C /repo worktree add --detach -f $WT HEAD >/dev/null 2>&1 || exit 3; fi
git -C $WT checkout -q --detach $(git -C /repo rev-parse HEAD) 2>/dev/null; git -C $WT checkout -- .
git -C $WT apply $D/patch.diff || { echo "patch does not apply"; exit 3; }
rm -rf $WT/_vout
cd /verif && VERIF_REPO=$WT VERIF_BUILD=$WT/_vbuild VERIF_OUT=$WT/_vout VERIF_SEED=$seed ./check $id $tier
rc=$?
git -C $WT checkout -- .
echo "seed_check rc=$rc"
exit $rc
